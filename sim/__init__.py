"""Deterministic simulation harness for disk-objectstore (see /verif/DESIGN.md)."""
