"""Engine U (C15): the real backup_container / backup_auto_folders driven through the in-process rsync stub,
scheduled against loose writers and one pack-writer actor at seam-call granularity."""

from __future__ import annotations

import hashlib
import json
import os
import random
from pathlib import Path

from . import gen, rawread
from .conc import Shared, gen_policy, reader_main, writer_main
from .core import SIM, HarnessError, install
from .hist import classify_exception, drop_scratch, new_scratch, short_tb
from .oracles import check_views
from . import rsyncsim
from .rsyncsim import make_manager_class
from .sched import Scheduler
from .world import DEFAULT_KNOBS, Knobs, Side, Violation, World, make_config, make_pool_specs

_PATCHED = {}


class _FakeNow:
    def __init__(self, tick):
        self.tick = tick

    def strftime(self, fmt):
        del fmt
        return f'{20260101000000 + self.tick:014d}'


class _FakeDatetimeCls:
    counter = 0

    @classmethod
    def now(cls, tz=None):
        del tz
        cls.counter += 1
        return _FakeNow(cls.counter)


class _FakeDatetimeModule:
    datetime = _FakeDatetimeCls

    class timezone:  # pylint: disable=invalid-name,too-few-public-methods
        utc = None


class _TempDir:
    counter = 0

    def __init__(self):
        _TempDir.counter += 1
        self.name = os.path.join(SIM.root, 'tmp', f't{_TempDir.counter}')

    def __enter__(self):
        os.makedirs(self.name, exist_ok=True)
        return self.name

    def __exit__(self, *exc):
        import shutil  # pylint: disable=import-outside-toplevel

        shutil.rmtree(self.name, ignore_errors=True)


class _FakeTempfile:  # pylint: disable=too-few-public-methods
    TemporaryDirectory = _TempDir


def patch_backup_utils():
    """Seams of backup_utils: clock, random folder suffix, temp dir, a yield point before the SQLite dump."""
    install()
    from disk_objectstore import backup_utils  # pylint: disable=import-outside-toplevel

    if _PATCHED:
        return backup_utils, _PATCHED['cls']
    backup_utils.datetime = _FakeDatetimeModule
    backup_utils.tempfile = _FakeTempfile
    orig_dump = backup_utils._sqlite_backup  # pylint: disable=protected-access

    def dump(src, dst):
        SIM.point('sqlite.backup', src, False)
        rsyncsim.CLOCK.stamp(str(src))  # the live index carries a logical mtime too (see rsyncsim docstring)
        return orig_dump(src, dst)

    backup_utils._sqlite_backup = dump  # pylint: disable=protected-access
    _PATCHED['cls'] = make_manager_class(backup_utils)
    _PATCHED['real'] = rsyncsim.make_real_manager_class(backup_utils)
    return backup_utils, _PATCHED['cls']


def generate(prop, seed, tier='quick'):
    rng = random.Random(seed)
    pool = make_pool_specs(rng, n_small=10)
    pool = [[k, min(n, 9000), s] for k, n, s in pool]
    config = make_config(rng)
    opts = gen.make_opts(rng, len(pool))
    weights = {'add_loose': 5, 'add_pack': 2, 'pack_loose': 2, 'clean': 1}
    pre_ops = gen.gen_history(rng, len(pool), rng.randint(1, 7), weights=weights, opts=opts, with_b=False)
    actors = []
    for i in range(rng.randint(1, 2)):
        ops = [
            {'c': rng.randrange(len(pool)), 'via': rng.choice(['bytes', 'stream']), 'seed': rng.randrange(1 << 20)}
            for _ in range(rng.randint(1, 4))
        ]
        actors.append({'name': f'w{i}', 'role': 'writer', 'ops': ops})
    pops = []
    for _ in range(rng.randint(1, 5 if tier == 'quick' else 9)):
        kind = rng.choice(['pack_loose', 'pack_loose', 'clean', 'add_pack', 'add_loose'])
        op = gen.gen_op(rng, kind, len(pool), opts)
        op.pop('from_key', None)
        op.setdefault('c', rng.randrange(len(pool)))
        if op.get('via') == 'offset':
            op['via'] = 'stream' if kind == 'add_loose' else 'bytesio'  # the in-flight set is predicted from the pool contents
        if kind == 'add_pack' and rng.random() < 0.1 and not any(o.get('mass') for o in pops):
            # one call crossing the library's 1000-row granularity (at most one per case: with pack_size_target=1 every
            # object is a pack file of its own, which the backup then copies one by one)
            op['mass'] = 1000 + rng.randint(0, 60)
            op['api'] = 'objects'
        pops.append(op)
    actors.append({'name': 'p', 'role': 'packer', 'ops': pops})
    if rng.random() < 0.6:
        # a client that keeps the container open for the whole run (its SQLite connection keeps the WAL alive)
        rops = [
            {'kind': rng.choice(['single', 'bulk', 'has', 'meta', 'list']), 'keys': [rng.randrange(len(pool)) for _ in range(3)], 'skip': True, 'recent': 2, 'seed': rng.randrange(1 << 20)}
            for _ in range(rng.randint(1, 4))
        ]
        actors.append({'name': 'r0', 'role': 'reader', 'ops': rops, 'fresh': False, 'warm': True, 'linger': True})
    actors.append(
        {
            'name': 'b',
            'role': 'backup',
            'ops': [{'auto': rng.random() < 0.6} for _ in range(rng.choice([1, 1, 2]))],
            'keep': rng.choice([None, 0, 1]),
            'warm': rng.random() < 0.5,
        }
    )
    return {
        'engine': 'U',
        'prop': prop,
        'seed': seed,
        'tier': tier,
        'config': config,
        'knobs': dict(DEFAULT_KNOBS),
        'pool': pool,
        'ops': pre_ops,
        'actors': actors,
        # a few runs use the real /usr/bin/rsync and coreutils instead of the in-process copier (one scheduling point per
        # external call): nothing about the external programs is modelled there
        'real_rsync': rng.random() < (0.08 if tier == 'quick' else 0.2),
        'policy': gen_policy(rng, freeze_roles=('packer', 'packer', 'packer', 'backup', 'backup', 'writer')),
        'decisions': None,
    }


def packwriter_main(world, side, shared, spec, lib):
    """The one maintenance client: pack / clean / direct-to-pack, plus loose adds, on one long-open handle."""

    def run(actor):
        del actor
        pside = Side('c', side.folder, side.config)
        pside.handles = [lib.Container(side.folder)]
        pside.model = {}
        pworld = World(world.root, world.case, None)
        pworld.sides['c'] = pside
        try:
            for op in spec['ops']:
                before = set(pside.model)
                if op['op'] in ('add_loose', 'add_pack'):
                    # make the contents known as in flight before the call
                    cidxs = list(op.get('cs', [op.get('c', 0)])) + [c for batch in op.get('pending', []) for c in batch]
                    datas = [world.content(cidx) for cidx in cidxs]
                    datas += [b'mass-%d-%d' % (op.get('seed', 0), i) for i in range(op.get('mass', 0))]
                    for data in datas:
                        shared.inflight[hashlib.new(side.hash_type, data).hexdigest()] = data
                pworld.step(op)
                for key in set(pside.model) - before:
                    shared.acked[key] = pside.model[key]
                    shared.recent.append(key)
        finally:
            pside.handles[0].close()

    return run


def verify_backup(lib, world, folder, must_have, universe, label):
    """The backup folder is a valid container holding at least ``must_have`` (key -> bytes)."""
    try:
        problems, observed = rawread.verify(folder, model=None)
    except rawread.LayoutBroken as exc:
        raise Violation('backup:layout-broken', f'{label}: the backup is not a container: {exc}') from None
    if problems:
        raise Violation('backup:' + problems[0].split(' ')[0], f'{label}: ' + '; '.join(problems[:4]))
    for key in must_have:
        if key not in observed:
            raise Violation('backup:object-missing', f'{label}: key={key[:12]} existed when the backup started but is not in the backup')
    cont = lib.Container(folder)
    try:
        for key, data in must_have.items():
            try:
                got = cont.get_object_content(key)
            except Exception as exc:  # pylint: disable=broad-except
                raise Violation('backup:object-unreadable', f'{label}: key={key[:12]}: {exc!r}') from None
            if got != data:
                raise Violation('backup:wrong-bytes', f'{label}: key={key[:12]} reads {len(got)} bytes, expected {len(data)}')
        listing = list(cont.list_all_objects())
        for key in listing:
            try:
                got = cont.get_object_content(key)
            except Exception as exc:  # pylint: disable=broad-except
                raise Violation('backup:listed-key-unreadable', f'{label}: key={key[:12]}: {exc!r}') from None
            if hashlib.new(world.sides['c'].hash_type, got).hexdigest() != key:
                raise Violation('backup:listed-key-wrong-bytes', f'{label}: key={key[:12]} reads {len(got)} bytes that do not hash to the key')
            if key in universe and got != universe[key]:
                raise Violation('backup:wrong-bytes', f'{label}: key={key[:12]}')
        res = cont.validate()
        if not res.is_valid():
            issues = {k: [x[:12] for x in v] for k, v in res.__dict__.items() if v}
            raise Violation('backup:validate-not-clean', f'{label}: {issues}')
    finally:
        cont.close()
    return len(observed)


def execute(case):  # pylint: disable=too-many-locals,too-many-statements,too-many-branches
    lib = install()
    backup_utils, manager_cls = patch_backup_utils()
    seed = case['seed']
    root = new_scratch()
    SIM.reset(root, seed=seed, fs_rng=random.Random(seed + 17))
    _FakeDatetimeCls.counter = 0
    _TempDir.counter = 0
    backup_utils.random = random.Random(seed + 5)
    if case.get('real_rsync') and os.path.exists('/usr/bin/rsync'):
        manager_cls = _PATCHED['real']  # the real programs, at phase granularity
    manager_cls.stats = None
    rsyncsim.CLOCK.reset()
    result = {'ok': True, 'violation': None, 'error': None}
    world = None
    sched = None
    shared = Shared()
    digest = None
    steps = 0
    outcomes = []
    probes = {'backups_completed': 0, 'backups_failed': 0, 'packer_events_during_backup': 0}
    backups = []  # (folder, must_have)
    try:
        with Knobs(case.get('knobs')):
            world = World(root, case, None)
            try:
                side = world.create_side('c', case['config'])
                with SIM.quiet():
                    world.run(case['ops'])
                world.close_all()
                side.handles = []
                shared.acked = dict(side.model)
                shared.inflight = dict(side.model)
                rng = random.Random(seed ^ 0xC15)
                # the cap only stops a runaway schedule; it grows with the one thing that legitimately makes runs long
                mass = sum(op.get('mass', 0) for actor in case['actors'] for op in actor['ops'])
                sched = Scheduler(SIM, rng, policy=tuple(case['policy']), max_steps=30000 + 120 * mass, replay=case.get('decisions'))
                dest = os.path.join(root, 'bk')
                os.makedirs(dest)
                state = {'in_backup': False}

                def backup_main(spec):
                    def run(actor):
                        del actor
                        cont = lib.Container(side.folder)
                        try:
                            manager = manager_cls(dest=dest, keep=spec.get('keep'))
                            if spec.get('warm'):
                                # the client that takes the backup has used its handle before (its operation session
                                # then holds a read snapshot of the index as of this query)
                                cont.count_objects()
                            for i, bop in enumerate(spec['ops']):
                                must_have = dict(shared.acked)
                                state['in_backup'] = True
                                try:
                                    if bop['auto']:
                                        manager.backup_auto_folders(
                                            lambda path, prev: backup_utils.backup_container(manager, cont, path, prev)
                                        )
                                        folder = manager.get_last_backup_folder()
                                    else:
                                        folder = Path(dest) / f'manual{i}'
                                        prev = manager.get_last_backup_folder()
                                        backup_utils.backup_container(manager, cont, folder, prev)
                                    backups.append((str(folder), must_have))
                                    probes['backups_completed'] += 1
                                    # verified at once (a later backup with keep=0 deletes this folder)
                                    with SIM.quiet():
                                        count = verify_backup(
                                            lib, world, str(folder), must_have, shared.inflight,
                                            f'backup #{i} ({os.path.basename(str(folder))}, auto={bop["auto"]})',
                                        )
                                    outcomes.append(('ok', count))
                                except backup_utils.BackupError as exc:
                                    probes['backups_failed'] += 1
                                    outcomes.append(('failed', str(exc)[:60]))
                                finally:
                                    state['in_backup'] = False
                        finally:
                            shared.done = True
                            cont.close()

                    return run

                for spec in case['actors']:
                    if spec['role'] == 'writer':
                        sched.spawn(spec['name'], writer_main(world, side, shared, spec, lib), role='writer')
                    elif spec['role'] == 'packer':
                        sched.spawn(spec['name'], packwriter_main(world, side, shared, spec, lib), role='packer')
                    elif spec['role'] == 'reader':
                        sched.spawn(spec['name'], reader_main(world, side, shared, spec, lib), role='reader')
                    else:
                        sched.spawn(spec['name'], backup_main(spec), role='backup')

                def hook(event):
                    _, actor, kind, _, _ = event
                    if state['in_backup'] and actor == 'p' and kind in ('sql:COMMIT', 'os.remove', 'os.unlink'):
                        probes['packer_events_during_backup'] += 1
                    return None

                SIM.hooks.append(hook)
                sched.run()
                digest = SIM.digest.hexdigest()
                steps = SIM.step
                SIM.frozen = True
                for actor in sched.actors:
                    if actor.exc is not None:
                        exc = actor.exc
                        if isinstance(exc, (HarnessError, Violation)):
                            raise exc
                        if classify_exception(exc) != 'library':
                            raise exc
                        raise Violation(f'{actor.role}-raised:{type(exc).__name__}', f'{actor.name}: {exc!r}\n{short_tb(exc)}'[:2000])
                if shared.violations:
                    raise Violation(*shared.violations[0])
                with SIM.quiet():
                    # the live container is still fine as well
                    side.model = dict(shared.acked)
                    problems, _ = rawread.verify(side.folder, model=side.model)
                    if problems:
                        raise Violation('final:' + problems[0].split(' ')[0], '; '.join(problems[:4]))
                    fresh = lib.Container(side.folder)
                    try:
                        check_views(world, side, fresh, random.Random(3), light=True)
                    finally:
                        fresh.close()
            except Violation as exc:
                result['ok'] = False
                result['violation'] = exc.as_dict()
            except HarnessError:
                raise
            except Exception as exc:  # pylint: disable=broad-except
                if classify_exception(exc) == 'library':
                    result['ok'] = False
                    result['violation'] = {'class': 'unexpected-exception:' + type(exc).__name__, 'detail': f'{exc!r}\n{short_tb(exc)}'[:2000], 'step': None}
                else:
                    raise
    except Exception as exc:  # pylint: disable=broad-except
        result['ok'] = False
        result['error'] = f'{exc!r}\n{short_tb(exc, 10)}'
    finally:
        if digest is None:
            digest = SIM.digest.hexdigest()
            steps = SIM.step
        if sched is not None:
            try:
                sched.unwind()
            except HarnessError as exc:
                result['ok'] = False
                result['error'] = result['error'] or repr(exc)
        if world is not None:
            world.close_all()
        decisions = sched.decisions if sched else []
        stats = (_PATCHED['real'].stats if case.get('real_rsync') and _PATCHED.get('real') is not None and _PATCHED['real'].stats else manager_cls.stats) or {}
        result.update(
            {
                'digest': digest,
                'steps': steps,
                'evals': 1,
                'nontrivial': probes['packer_events_during_backup'] > 0 and probes['backups_completed'] > 0,
                'behaviour': hashlib.sha1(json.dumps(decisions).encode()).hexdigest()[:16],
                'ops': {'backups': len(backups)},
                'faults': {'rsync_vanished_file': stats.get('vanished', 0)},
                'probes': dict(probes, rsync_copied=stats.get('copied', 0), rsync_linked=stats.get('linked', 0), rsync_skipped=stats.get('skipped', 0), scheduling_decisions=len(decisions), real_rsync_runs=int(bool(case.get('real_rsync'))), rsync_calls=stats.get('calls', 0)),
                'kinds': dict(SIM.kinds),
                'decisions': decisions if not result['ok'] else None,
            }
        )
        SIM.reset(None)
        drop_scratch(root)
    return result


def shrink(case, budget_s=60.0):
    from . import conc  # pylint: disable=import-outside-toplevel

    # same structure as engine C cases (actors + decisions); reuse its reducer with this module's execute
    saved = conc.execute
    conc.execute = execute
    try:
        return conc.shrink(case, budget_s)
    finally:
        conc.execute = saved
