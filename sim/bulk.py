"""Engine K (C16): bulk reads == single-key operation mapped over the distinct keys == model, under randomised
lookup thresholds; plus (sub='helpers') the adjunct enumeration of the sorted-merge helpers (not a simulation result).
"""

from __future__ import annotations

import hashlib
import itertools
import json
import random

from . import gen
from .core import SIM, HarnessError, install
from .hist import classify_exception, drop_scratch, new_scratch, short_tb
from .world import DEFAULT_KNOBS, Knobs, Violation, World, absent_key, make_config


def generate(prop, seed, tier='quick', sub=None):
    rng = random.Random(seed)
    if sub == 'helpers':
        return {'engine': 'K', 'prop': prop, 'seed': seed, 'tier': tier, 'sub': 'helpers', 'universe': 6 if tier == 'quick' else 7}
    real = tier == 'thorough' and rng.random() < 0.08
    pool = [['empty', 0, 0], ['zeros', 1, 97]]
    npool = 45
    for _ in range(npool):
        pool.append([rng.choice(['rand', 'text', 'zeros']), rng.choice([1, 2, 5, 9, 30, 200]), rng.randrange(1 << 30)])
    config = make_config(rng)
    config['pack_size_target'] = rng.choice([50, 500, 4 * 1024**3])
    opts = gen.make_opts(rng, len(pool))
    weights = {'add_loose': 6, 'add_pack': 6, 'pack_loose': 2, 'clean': 1, 'loosen': 2}
    ops = gen.gen_history(rng, len(pool), rng.randint(4, 16), weights=weights, opts=opts, with_b=False, always=('add_pack', 'add_loose'))
    knobs = dict(DEFAULT_KNOBS)
    if not real:
        knobs['in_sql'] = rng.choice([1, 2, 3, 5, 950])
        knobs['max_iter'] = rng.choice([0, 1, 2, 3, 4, 9500])
    requests = []
    for _ in range(rng.randint(2, 6)):
        requests.append(
            {
                'present': [rng.randrange(256) for _ in range(rng.choice([0, 1, 2, 5, 12, 25, 40]))],
                'absent': rng.choice([0, 0, 1, 3]),
                'repeat': rng.choice([0, 0, 1, 4]),
                'seed': rng.randrange(1 << 20),
            }
        )
    return {
        'engine': 'K',
        'prop': prop,
        'seed': seed,
        'tier': tier,
        'sub': 'real' if real else 'bulk',
        'config': config,
        'knobs': knobs,
        'pool': pool,
        'ops': ops,
        'requests': requests,
        'real_rows': rng.choice([1100, 9700]) if real else 0,
        'real_loose': rng.choice([0, 9700]) if real else 0,
    }


def single_answers(handle, keys):
    """The single-key operations mapped over the distinct keys (under default constants)."""
    from disk_objectstore.exceptions import NotExistent  # pylint: disable=import-outside-toplevel

    out = {}
    for key in keys:
        try:
            content = handle.get_object_content(key)
            meta = handle.get_object_meta(key)
            out[key] = (handle.has_object(key), content, meta.size, meta.type.value)
        except NotExistent:
            out[key] = (handle.has_object(key), None, None, 'missing')
    return out


def compare_bulk(world, handle, request, singles, knobs, label):  # pylint: disable=too-many-branches,too-many-locals
    distinct = list(dict.fromkeys(request))

    def fail(klass, detail):
        raise Violation(klass, f'{label} knobs={knobs}: {detail}', world.step_index)

    got = handle.has_objects(request)
    exp = [singles[k][0] for k in request]
    if list(got) != exp:
        fail('bulk-ne-single', f'has_objects differs at {[request[i][:10] for i in range(len(request)) if got[i] != exp[i]]}')
    for skip in (True, False):
        res = handle.get_objects_content(request, skip_if_missing=skip)
        exp_res = {k: singles[k][1] for k in distinct if not skip or singles[k][1] is not None}
        if res != exp_res:
            fail('bulk-ne-single', f'get_objects_content(skip={skip}): keys {sorted(k[:10] for k in set(res) ^ set(exp_res))} / values differ')
        metas = list(handle.get_objects_meta(request, skip_if_missing=skip))
        names = [k for k, _ in metas]
        if len(names) != len(set(names)):
            fail('bulk-key-repeated', f'get_objects_meta(skip={skip}) reports a key more than once')
        exp_keys = {k for k in distinct if not skip or singles[k][3] != 'missing'}
        if set(names) != exp_keys:
            fail('bulk-ne-single', f'get_objects_meta(skip={skip}) keys differ: {sorted(k[:10] for k in set(names) ^ exp_keys)}')
        for key, meta in metas:
            if meta.size != singles[key][2] or (singles[key][3] is not None and meta.type.value != singles[key][3]):
                fail('bulk-ne-single', f'get_objects_meta key={key[:10]}: {(meta.size, meta.type.value)} vs single {singles[key][2:]}')
        seen = []
        with handle.get_objects_stream_and_meta(request, skip_if_missing=skip) as triplets:
            for key, stream, meta in triplets:
                seen.append(key)
                content = None if stream is None else stream.read()
                if content != singles[key][1]:
                    fail('bulk-ne-single', f'get_objects_stream_and_meta key={key[:10]} content differs from single read')
                if meta.size != singles[key][2]:
                    fail('bulk-ne-single', f'get_objects_stream_and_meta key={key[:10]} size differs')
        if len(seen) != len(set(seen)):
            fail('bulk-key-repeated', f'get_objects_stream_and_meta(skip={skip}) yields a key more than once')
        if set(seen) != exp_keys:
            fail('bulk-ne-single', f'get_objects_stream_and_meta(skip={skip}) keys differ')


def run_helpers(case):
    """Adjunct: all pairs of subsets of a small universe through detect_where_sorted / merge_sorted."""
    from disk_objectstore.utils import Location, detect_where_sorted, merge_sorted  # pylint: disable=import-outside-toplevel

    n = case['universe']
    universe = list(range(n))
    subsets = [tuple(x for i, x in enumerate(universe) if mask >> i & 1) for mask in range(1 << n)]
    pairs = 0
    for left in subsets:
        for right in subsets:
            pairs += 1
            got = list(detect_where_sorted(iter(left), iter(right)))
            exp = []
            for item in sorted(set(left) | set(right)):
                where = Location.BOTH if item in left and item in right else (Location.LEFTONLY if item in left else Location.RIGHTONLY)
                exp.append((item, where))
            if got != exp:
                raise Violation('helper-wrong', f'detect_where_sorted({left}, {right}) = {got}')
            if list(merge_sorted(iter(left), iter(right))) != sorted(set(left) | set(right)):
                raise Violation('helper-wrong', f'merge_sorted({left}, {right})')
    # with a left_key, as the container uses it (tuples from a cursor against plain keys)
    for left in subsets[:: max(1, len(subsets) // 16)]:
        for right in subsets[:: max(1, len(subsets) // 16)]:
            got = list(detect_where_sorted(((x, 'row') for x in left), iter(right), left_key=lambda t: t[0]))
            exp_both = [x for x in left if x in right]
            if [g[0][0] for g in got if g[1] == Location.BOTH] != exp_both:
                raise Violation('helper-wrong', f'detect_where_sorted with left_key ({left}, {right})')
    rejected = 0
    bad_inputs = [((1, 0), (0, 1)), ((0, 1), (1, 0)), ((0, 0, 1), (2,)), ((2,), (0, 1, 1)), ((0, 2, 1), (0, 1, 2, 3)), ((0, 1, 2, 3), (0, 3, 2))]
    for left, right in bad_inputs:
        try:
            list(detect_where_sorted(iter(left), iter(right)))
        except ValueError:
            rejected += 1
        else:
            raise Violation('helper-accepts-unsorted', f'detect_where_sorted({left}, {right}) did not raise ValueError')
    return pairs, rejected


def execute(case):  # pylint: disable=too-many-locals,too-many-statements,too-many-branches
    lib = install()
    seed = case['seed']
    root = new_scratch()
    SIM.reset(root, seed=seed, fs_rng=random.Random(seed + 17))
    result = {'ok': True, 'violation': None, 'error': None}
    world = None
    probes = {}
    nreq = 0
    try:
        try:
            if case.get('sub') == 'helpers':
                pairs, rejected = run_helpers(case)
                probes = {'helper_pairs_enumerated': pairs, 'helper_unsorted_inputs_rejected': rejected}
            else:
                world = World(root, case, None)
                side = world.create_side('c', case['config'])
                handle = side.handles[0]
                with Knobs(DEFAULT_KNOBS):
                    world.run(case['ops'])
                    if case.get('real_rows'):
                        with SIM.quiet():
                            datas = [b'real-%d' % i for i in range(case['real_rows'])]
                            keys = handle.add_objects_to_pack(datas, do_fsync=False)
                            side.model.update(dict(zip(keys, datas)))
                            for i in range(case.get('real_loose', 0)):
                                data = b'loose-%d' % i
                                side.model[handle.add_object(data)] = data
                        probes['real_sizes'] = 1
                model_keys = sorted(side.model)
                for req in case['requests']:
                    rng = random.Random(req['seed'])
                    request = [model_keys[j % len(model_keys)] for j in req['present']] if model_keys else []
                    if case.get('real_rows'):
                        request = request + rng.sample(model_keys, min(len(model_keys), case['real_rows'] + case.get('real_loose', 0) - 50))
                    request += [absent_key(side.hash_type, 500 + i) for i in range(req['absent'])]
                    request += request[: req['repeat']]
                    rng.shuffle(request)
                    world.step_index = nreq
                    with SIM.quiet():
                        with Knobs(DEFAULT_KNOBS):
                            distinct = list(dict.fromkeys(request))
                            if len(distinct) > 3000:
                                # real-size requests: ask singly for the present keys and a sample of the absent ones
                                present = [k for k in distinct if k in side.model]
                                some_absent = [k for k in distinct if k not in side.model][:50]
                                singles = {k: (False, None, None, 'missing') for k in distinct}
                                singles.update(single_answers(handle, present[:1500] + some_absent))
                                for k in present[1500:]:
                                    singles[k] = (True, side.model[k], len(side.model[k]), None)
                            else:
                                singles = single_answers(handle, distinct)
                        for key, ans in singles.items():
                            exp = side.model.get(key)
                            if ans[1] != exp or ans[0] != (exp is not None):
                                raise Violation('single-ne-model', f'key={key[:10]}', nreq)
                    with Knobs(case['knobs']):
                        compare_bulk(world, handle, request, singles, case['knobs'], f'request #{nreq} ({len(request)} keys)')
                    nreq += 1
                # bulk maintenance under the lowered thresholds leaves the model intact
                with Knobs(case['knobs']):
                    handle.pack_all_loose()
                    handle.clean_storage()
                with SIM.quiet(), Knobs(DEFAULT_KNOBS):
                    singles = single_answers(handle, model_keys)
                    for key, ans in singles.items():
                        if ans[1] != side.model[key]:
                            raise Violation('bulk-maintenance-lost-object', f'key={key[:10]} after pack_all_loose+clean_storage')
        except Violation as exc:
            result['ok'] = False
            result['violation'] = exc.as_dict()
        except HarnessError:
            raise
        except Exception as exc:  # pylint: disable=broad-except
            if classify_exception(exc) == 'library':
                result['ok'] = False
                result['violation'] = {'class': 'unexpected-exception:' + type(exc).__name__, 'detail': f'{exc!r}\n{short_tb(exc)}'[:2000], 'step': nreq}
            else:
                raise
    except Exception as exc:  # pylint: disable=broad-except
        result['ok'] = False
        result['error'] = f'{exc!r}\n{short_tb(exc, 10)}'
    finally:
        if world is not None:
            world.close_all()
        probes['bulk_requests_compared'] = nreq
        result.update(
            {
                'digest': SIM.digest.hexdigest(),
                'steps': SIM.step,
                'evals': max(1, nreq),
                'nontrivial': nreq >= 2 or case.get('sub') == 'helpers',
                'behaviour': hashlib.sha1(json.dumps([case.get('knobs'), case.get('requests'), case.get('sub')]).encode() + SIM.digest.digest()).hexdigest()[:16],
                'ops': world.stats['ops'] if world else {},
                'faults': {},
                'probes': probes,
                'kinds': dict(SIM.kinds),
            }
        )
        SIM.reset(None)
        drop_scratch(root)
    return result


def lift(case, result):
    """Lowered thresholds -> the same requests at the shipped thresholds with key counts scaled up (DESIGN 2.9)."""
    if result['ok'] or result.get('error') or case.get('sub') != 'bulk' or case.get('knobs') == DEFAULT_KNOBS:
        return case, result, None
    from .shrink import vclass  # pylint: disable=import-outside-toplevel

    knobs = case['knobs']
    factor = max(DEFAULT_KNOBS['max_iter'] // max(1, knobs['max_iter']) if knobs['max_iter'] < 9500 else 1,
                 DEFAULT_KNOBS['in_sql'] // max(1, knobs['in_sql']) if knobs['in_sql'] < 950 else 1)
    failing = result['violation'].get('step')
    reqs = case['requests'][failing : failing + 1] if isinstance(failing, int) and failing < len(case['requests']) else case['requests'][:1]
    requests = [dict(req, absent=min(req['absent'] * factor, 12000)) for req in reqs]
    rows = 9700 if knobs['max_iter'] < 9500 else 1100
    scaled = dict(case, knobs=dict(DEFAULT_KNOBS), sub='real', real_rows=rows, real_loose=0, requests=requests)
    res2 = execute(scaled)
    if vclass(res2) == vclass(result) and not res2.get('error'):
        return scaled, res2, 'lifted-scaled (shipped thresholds, real key counts)'
    return case, result, 'not lifted: reported with the lowered thresholds recorded in the replay file'


def shrink(case, budget_s=60.0):
    from . import shrink as shr  # pylint: disable=import-outside-toplevel

    if case.get('sub') == 'helpers':
        return case, execute(case)
    return shr.shrink_case(case, execute, list_keys=('requests', 'ops'), budget_s=budget_s, simplify=None)


_ = itertools
