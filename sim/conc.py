"""Engine C (C04): writers, readers and one packer interleaved at every file-system call and SQL statement.

Oracle (acked history): every invocation / return is stamped with the global seam-step counter. For a read invoked at
step t: every requested key whose add returned before t (or that pre-existed) must be found with exactly its bytes;
keys whose add is still in flight may be found (then correct) or missing; never-added keys must be missing; no exception
other than NotExistent for absent keys may reach a reader; every add returns the harness-computed key.
"""

from __future__ import annotations

import hashlib
import io
import json
import os
import random

from . import gen, rawread
from .core import SIM, HarnessError, install
from .hist import classify_exception, drop_scratch, new_scratch, short_tb
from .oracles import check_views
from .sched import Scheduler
from .world import DEFAULT_KNOBS, Knobs, ShortReadStream, Violation, World, hkey, make_config, make_pool_specs

READ_KINDS = ['single', 'bulk', 'bulk_all', 'has', 'meta', 'stream_seek', 'list', 'single_meta', 'bulk_stream_seek', 'bulk_stream_seek']


FREEZE_KINDS = {
    'packer': ['sql:COMMIT', 'sql:COMMIT', 'sql:COMMIT', 'sql:COMMIT', 'sql:COMMIT', 'sql:INSERT', 'sql:DELETE', 'f.write', 'f.flush', 'f.close', 'os.fsync', 'os.remove', 'os.unlink', 'open'],
    'writer': ['f.write', 'f.close', 'os.fsync', 'os.rename', 'os.replace', 'open', 'stat'],
    'reader': ['open', 'stat', 'f.read', 'f.seek', 'sql:SELECT'],
    'backup': ['rsync', 'cmd.', 'sqlite.backup', 'open', 'f.read'],
}


def gen_freeze_policy(rng, roles=('packer', 'packer', 'writer', 'reader')):
    role = rng.choice(list(roles))
    kind = rng.choice(FREEZE_KINDS[role])
    nth = rng.choice([1, 1, 1, 2, 2, 3, 4, 6, 9, 15, 40])
    return ['freeze', role, kind, nth, rng.choice(['before', 'after']), rng.choice([0.0, 0.5, 0.9])]


def gen_policy(rng, freeze_roles=('packer', 'packer', 'writer', 'reader')):
    if rng.random() < 0.25:
        return gen_freeze_policy(rng, freeze_roles)
    return rng.choice(
        [
            ['uniform'],
            ['sticky', 0.5],
            ['sticky', 0.9],
            ['pct', 1, 300],
            ['pct', 2, 400],
            ['pct', 3, 600],
            ['adversarial', 0.85],
            ['adversarial', 0.6],
            ['stall', 0.9],
            ['stall', 0.7],
            ['stall', 0.97],
            ['stall', 0.95, 0.8],
            ['stall', 0.98, 0.9],
            ['stall', 0.9, 0.5],
        ]
    )


def generate(prop, seed, tier='quick'):
    rng = random.Random(seed)
    pool = make_pool_specs(rng, n_small=10)
    pool = [[k, min(n, 3000), s] for k, n, s in pool]
    config = make_config(rng)
    opts = gen.make_opts(rng, len(pool))
    weights = {'add_loose': 5, 'add_pack': 2, 'pack_loose': 2, 'clean': 1, 'loosen': 1}
    pre_ops = gen.gen_history(rng, len(pool), rng.randint(0, 6), weights=weights, opts=opts, with_b=False)
    nwriters = rng.randint(1, 3)
    nreaders = rng.randint(1, 3)
    maxops = 4 if tier == 'quick' else 6
    actors = []
    for i in range(nwriters):
        ops = [
            {'c': rng.randrange(len(pool)), 'via': rng.choice(['bytes', 'stream', 'short']), 'seed': rng.randrange(1 << 20)}
            for _ in range(rng.randint(1, maxops))
        ]
        actors.append({'name': f'w{i}', 'role': 'writer', 'ops': ops})
    for i in range(nreaders):
        ops = [
            {
                'kind': rng.choice(READ_KINDS),
                'keys': [rng.randrange(len(pool) + 2) for _ in range(rng.randint(1, 6))],
                'skip': rng.random() < 0.5,
                'recent': rng.choice([0, 1, 2, 3]),
                'seed': rng.randrange(1 << 20),
            }
            for _ in range(rng.randint(1, maxops))
        ]
        actors.append({'name': f'r{i}', 'role': 'reader', 'ops': ops, 'fresh': rng.random() < 0.4, 'warm': rng.random() < 0.6})
    cycles = []
    for _ in range(rng.randint(1, 2)):
        cycles.append(
            {
                'compress': rng.choice(gen.COMPRESS_MODES),
                'clean_per_pack': rng.random() < 0.5,
                'validate': rng.random() < 0.7,
                'clean': rng.random() < 0.85,
                'vacuum': rng.random() < 0.15,
            }
        )
    actors.append({'name': 'p', 'role': 'packer', 'ops': cycles})
    kill = None
    if rng.random() < 0.15:
        kill = [f'w{rng.randrange(nwriters)}', rng.randint(1, 40)]
    return {
        'engine': 'C',
        'prop': prop,
        'seed': seed,
        'tier': tier,
        'config': config,
        'knobs': dict(DEFAULT_KNOBS),
        'pool': pool,
        'ops': pre_ops,
        'actors': actors,
        'policy': gen_policy(rng),
        'kill': kill,
        'decisions': None,
    }


class Shared:  # pylint: disable=too-few-public-methods
    """State shared by the actors (only one thread runs at a time, so no locking)."""

    def __init__(self):
        self.acked = {}  # key -> bytes, adds that have returned (and pre-existing objects)
        self.recent = []  # keys in order of acknowledgement
        self.inflight = {}  # key -> bytes, adds invoked (ever)
        self.violations = []
        self.history = []
        self.window = False  # packer is between a COMMIT and the end of its operation
        self.reader_events_in_window = 0
        self.reads_checked = 0
        self.fallback_probe = 0
        self.done = False  # set by the actor whose end finishes the scenario (lingering readers stop idling)


def universe_key(world, side, idx):
    """Pool index -> (key, bytes); indices beyond the pool denote keys that are never added."""
    npool = len(world.pool_specs)
    if idx >= npool:
        data = b'never-added-%d' % idx
        return hkey(side.hash_type, data), None
    data = world.content(idx)
    return hkey(side.hash_type, data), data


def writer_main(world, side, shared, spec, lib):
    def run(actor):
        handle = lib.Container(side.folder)
        try:
            for op in spec['ops']:
                data = world.content(op['c'])
                key = hkey(side.hash_type, data)
                shared.inflight[key] = data
                t_inv = SIM.step
                if op['via'] == 'bytes':
                    got = handle.add_object(data)
                elif op['via'] == 'short':
                    got = handle.add_streamed_object(ShortReadStream(data, op['seed']))
                else:
                    got = handle.add_streamed_object(io.BytesIO(data))
                if got != key:
                    shared.violations.append(('wrong-key', f'{actor.name}: add returned {got}, expected {key}'))
                shared.acked[key] = data
                shared.recent.append(key)
                shared.history.append((actor.name, 'add', t_inv, SIM.step, key[:8]))
        finally:
            handle.close()

    return run


def check_read(shared, actor, op, requested, acked_at_invoke, found, t_inv):
    """``found``: key -> bytes for keys reported present (None value = present without content)."""
    for key, data in requested.items():
        if key in acked_at_invoke:
            if key not in found:
                shared.violations.append(
                    ('acked-object-missing', f"{actor.name} {op['kind']} invoked at step {t_inv}: key={key[:12]} acknowledged before the call but reported missing")
                )
            elif found[key] is not None and found[key] != acked_at_invoke[key]:
                shared.violations.append(
                    ('wrong-bytes', f"{actor.name} {op['kind']} invoked at step {t_inv}: key={key[:12]} got {len(found[key])} bytes, expected {len(acked_at_invoke[key])}")
                )
        elif key in found:
            exp = shared.inflight.get(key)
            if exp is None:
                shared.violations.append(('phantom-object', f"{actor.name} {op['kind']}: key={key[:12]} was never added but is reported present"))
            elif found[key] is not None and found[key] != exp:
                shared.violations.append(('wrong-bytes', f"{actor.name} {op['kind']}: in-flight key={key[:12]} read back with wrong bytes"))
        del data
    shared.reads_checked += 1


def reader_main(world, side, shared, spec, lib):  # pylint: disable=too-many-statements
    from disk_objectstore.exceptions import NotExistent  # pylint: disable=import-outside-toplevel

    def one_read(actor, handle, op):  # pylint: disable=too-many-branches,too-many-locals
        requested = {}
        for idx in op['keys']:
            key, data = universe_key(world, side, idx)
            requested[key] = data
        oprng = random.Random(op['seed'])
        if op.get('recent') and shared.recent:
            # also ask for objects acknowledged most recently (the ones a packer is most likely working on)
            for key in shared.recent[-op['recent'] :]:
                requested[key] = shared.acked[key]
        keys = list(requested)
        oprng.shuffle(keys)
        acked = dict(shared.acked)
        t_inv = SIM.step
        found = {}
        kind = op['kind']
        if kind in ('single', 'single_meta', 'stream_seek'):
            keys = keys[:1]
            requested = {keys[0]: requested[keys[0]]}
            key = keys[0]
            try:
                if kind == 'single':
                    found[key] = handle.get_object_content(key)
                elif kind == 'single_meta':
                    meta = handle.get_object_meta(key)
                    found[key] = None
                    exp = acked.get(key, shared.inflight.get(key))
                    if exp is not None and meta.size != len(exp):
                        shared.violations.append(('wrong-size', f'{actor.name}: get_object_meta key={key[:12]} size={meta.size} expected {len(exp)}'))
                else:
                    with handle.get_object_stream(key) as stream:
                        rng = random.Random(op['seed'])
                        head = stream.read(rng.choice([0, 1, 3]))
                        # whence=2 / backward seeks force the loose-cache path on compressed packed objects
                        stream.seek(0, 2)
                        size = stream.tell()
                        stream.seek(-min(size, rng.choice([1, 2, 5])), 1)
                        tail = stream.read()
                        stream.seek(0)
                        whole = stream.read()
                        if not whole.startswith(head) or not whole.endswith(tail) or len(whole) != size:
                            shared.violations.append(('wrong-bytes', f'{actor.name}: stream_seek key={key[:12]} inconsistent reads'))
                        found[key] = whole
            except NotExistent:
                pass
        elif kind in ('bulk', 'bulk_all'):
            res = handle.get_objects_content(keys, skip_if_missing=op['skip'])
            for key, val in res.items():
                if val is not None:
                    found[key] = val
        elif kind == 'bulk_stream_seek':
            # several streams from one bulk call, each used with random access (forces the loose cache of compressed
            # packed objects) while the packer may move the objects between the index lookup and the file opens
            rng = random.Random(op['seed'])
            with handle.get_objects_stream_and_meta(keys, skip_if_missing=op['skip']) as triplets:
                for key, stream, meta in triplets:
                    if stream is None:
                        continue
                    head = stream.read(rng.choice([0, 1, 2]))
                    end = stream.seek(0, 2)
                    stream.seek(-min(end, rng.choice([1, 3, 8])), 1)
                    tail = stream.read()
                    stream.seek(0)
                    whole = stream.read()
                    if end != len(whole) or not whole.startswith(head) or not whole.endswith(tail) or meta.size != len(whole):
                        shared.violations.append(
                            ('wrong-bytes', f'{actor.name}: bulk_stream_seek key={key[:12]}: seek(0,2)={end}, read {len(whole)} bytes, meta.size={meta.size}, head/tail inconsistent')
                        )
                    found[key] = whole
        elif kind == 'has':
            res = handle.has_objects(keys)
            for key, val in zip(keys, res):
                if val:
                    found[key] = None
        elif kind == 'meta':
            for key, meta in handle.get_objects_meta(keys, skip_if_missing=op['skip']):
                if meta.type.value != 'missing':
                    found[key] = None
                    exp = acked.get(key, shared.inflight.get(key))
                    if exp is not None and meta.size != len(exp):
                        shared.violations.append(('wrong-size', f'{actor.name}: get_objects_meta key={key[:12]} size={meta.size} expected {len(exp)}'))
        elif kind == 'list':
            listing = list(handle.list_all_objects())
            requested = dict(acked)
            requested.update({k: v for k, v in shared.inflight.items()})
            for key in listing:
                found[key] = None
            if len(listing) != len(set(listing)):
                shared.violations.append(('listing-wrong', f'{actor.name}: list_all_objects repeats keys'))
        check_read(shared, actor, op, requested, acked, found, t_inv)
        shared.history.append((actor.name, kind, t_inv, SIM.step, len(found)))

    def run(actor):
        handle = None
        try:
            if not spec.get('fresh'):
                handle = lib.Container(side.folder)
                if spec.get('warm'):
                    handle.has_objects([hkey(side.hash_type, b'warm-up')])  # pins a WAL snapshot on the long-open handle
            for op in spec['ops']:
                cont = handle or lib.Container(side.folder)
                try:
                    one_read(actor, cont, op)
                finally:
                    if handle is None:
                        cont.close()
            if spec.get('linger'):
                # keep the handle (and its SQLite connection) open while the others work: idle scheduling points
                idle = 0
                while not shared.done and idle < 400:
                    SIM.point('h.idle', side.folder, False)
                    idle += 1
        finally:
            if handle is not None:
                handle.close()

    return run


def packer_main(world, side, shared, spec, lib):
    from disk_objectstore.utils import CompressMode  # pylint: disable=import-outside-toplevel

    def run(actor):
        del actor
        handle = lib.Container(side.folder)
        try:
            for cyc in spec['ops']:
                comp = cyc['compress']
                comp = comp if isinstance(comp, bool) else CompressMode(comp)
                handle.pack_all_loose(compress=comp, validate_objects=cyc['validate'], clean_loose_per_pack=cyc['clean_per_pack'])
                shared.window = False
                if cyc['clean']:
                    shared.window = True  # clean_storage unlinks packed loose files
                    handle.clean_storage(vacuum=cyc['vacuum'])
                    shared.window = False
        finally:
            shared.window = False
            handle.close()

    del world
    return run


def execute(case):  # pylint: disable=too-many-locals,too-many-statements,too-many-branches
    lib = install()
    seed = case['seed']
    root = new_scratch()
    SIM.reset(root, seed=seed, fs_rng=random.Random(seed + 17))
    result = {'ok': True, 'violation': None, 'error': None}
    world = None
    sched = None
    shared = Shared()
    digest = None
    steps = 0
    try:
        with Knobs(case.get('knobs')):
            world = World(root, case, None)
            try:
                side = world.create_side('c', case['config'])
                with SIM.quiet():
                    world.run(case['ops'])
                world.close_all()
                side.handles = []
                shared.acked = dict(side.model)
                shared.inflight = dict(side.model)
                rng = random.Random(seed ^ 0xC04)
                sched = Scheduler(SIM, rng, policy=tuple(case['policy']), max_steps=5000 if case['tier'] == 'quick' else 20000, replay=case.get('decisions'))
                mains = {'writer': writer_main, 'reader': reader_main, 'packer': packer_main}
                for spec in case['actors']:
                    sched.spawn(spec['name'], mains[spec['role']](world, side, shared, spec, lib), role=spec['role'])
                if case.get('kill'):
                    sched.kill_plan[case['kill'][0]] = case['kill'][1]

                def hook(event):
                    _, actor, kind, _, _ = event
                    if actor == 'p' and kind == 'sql:COMMIT':
                        shared.window = True
                    elif actor.startswith('r') and shared.window:
                        shared.reader_events_in_window += 1
                    return None

                SIM.hooks.append(hook)
                sched.run()
                digest = SIM.digest.hexdigest()
                steps = SIM.step
                SIM.frozen = True
                for actor in sched.actors:
                    if actor.exc is not None and not actor.killed:
                        exc = actor.exc
                        if isinstance(exc, HarnessError) or classify_exception(exc) != 'library':
                            raise exc
                        raise Violation(
                            f'{actor.role}-raised:{type(exc).__name__}',
                            f'{actor.name}: {exc!r}\n{short_tb(exc)}'[:2000],
                        )
                if shared.violations:
                    klass, detail = shared.violations[0]
                    raise Violation(klass, detail)
                # final state: every acknowledged object is there (a killed writer's in-flight object may be)
                model = dict(shared.acked)
                with SIM.quiet():
                    state = rawread.read_state(side.folder)
                    problems, observed = rawread.verify(side.folder, model=None, state=state)
                    if problems:
                        raise Violation('final:' + problems[0].split(' ')[0], '; '.join(problems[:4]))
                    for key in observed:
                        if key not in model:
                            if key in shared.inflight:
                                model[key] = shared.inflight[key]
                            else:
                                raise Violation('final:unexpected-key', f'key={key[:12]}')
                    for key in shared.acked:
                        if key not in observed:
                            raise Violation('final:acked-object-lost', f'key={key[:12]}')
                    side.model = model
                    fresh = lib.Container(side.folder)
                    try:
                        check_views(world, side, fresh, random.Random(3), light=True)
                        if not fresh.validate().is_valid():
                            raise Violation('final:validate-not-clean', 'validate() reports issues after the run')
                    finally:
                        fresh.close()
            except Violation as exc:
                result['ok'] = False
                result['violation'] = exc.as_dict()
            except HarnessError:
                raise
            except Exception as exc:  # pylint: disable=broad-except
                if classify_exception(exc) == 'library':
                    result['ok'] = False
                    result['violation'] = {'class': 'unexpected-exception:' + type(exc).__name__, 'detail': f'{exc!r}\n{short_tb(exc)}'[:2000], 'step': None}
                else:
                    raise
    except Exception as exc:  # pylint: disable=broad-except
        result['ok'] = False
        result['error'] = f'{exc!r}\n{short_tb(exc, 10)}'
    finally:
        if digest is None:
            digest = SIM.digest.hexdigest()
            steps = SIM.step
        if sched is not None:
            try:
                sched.unwind()
            except HarnessError as exc:
                result['ok'] = False
                result['error'] = result['error'] or repr(exc)
        if world is not None:
            world.close_all()
        decisions = sched.decisions if sched else []
        result.update(
            {
                'digest': digest,
                'steps': steps,
                'evals': 1,
                'nontrivial': shared.reader_events_in_window > 0,
                'behaviour': hashlib.sha1(json.dumps(decisions).encode()).hexdigest()[:16],
                'ops': {'actors': len(case['actors']), 'reads_checked': shared.reads_checked},
                'faults': {'actor_kill': int(bool(case.get('kill')) and any(a.killed for a in (sched.actors if sched else [])))},
                'probes': {
                    'reader_events_between_commit_and_unlink_end': shared.reader_events_in_window,
                    'scheduling_decisions': len(decisions),
                    'policy_' + case['policy'][0]: 1,
                    **dict(SIM.probes),
                },
                'kinds': dict(SIM.kinds),
                'decisions': decisions if not result['ok'] else None,
            }
        )
        SIM.reset(None)
        drop_scratch(root)
    return result


def shrink(case, budget_s=60.0):
    """Drop actors / actor operations, then remove pre-emptions from the recorded decision list."""
    import copy  # pylint: disable=import-outside-toplevel
    import time  # pylint: disable=import-outside-toplevel

    from . import shrink as shr  # pylint: disable=import-outside-toplevel

    deadline = time.time() + budget_s
    base = execute(case)
    want = shr.vclass(base)
    if want is None:
        return case, base
    best = dict(copy.deepcopy(case), decisions=base.get('decisions'))
    res = execute(best)
    if shr.vclass(res) != want:
        return case, base
    best_res = res

    def attempt(trial):
        nonlocal best, best_res
        out = execute(trial)
        if not out.get('error') and shr.vclass(out) == want:
            best = dict(trial, decisions=out.get('decisions') or trial.get('decisions'))
            best_res = out
            return True
        return False

    progress = True
    while progress and time.time() < deadline:
        progress = False
        for i in range(len(best['actors'])):
            if best['actors'][i]['role'] == 'packer':
                continue
            trial = copy.deepcopy(best)
            del trial['actors'][i]
            if attempt(trial):
                progress = True
                break
        if progress:
            continue
        for i, spec in enumerate(best['actors']):
            for j in range(len(spec['ops'])):
                if len(spec['ops']) <= 1:
                    continue
                trial = copy.deepcopy(best)
                del trial['actors'][i]['ops'][j]
                if attempt(trial):
                    progress = True
                    break
            if progress:
                break
        if progress:
            continue
        if best.get('ops'):
            trial = copy.deepcopy(best)
            trial['ops'] = trial['ops'][:-1]
            if attempt(trial):
                progress = True
    # fewer context switches: merge neighbouring runs of the same actor greedily
    decisions = best.get('decisions') or []
    i = 1
    while i < len(decisions) and time.time() < deadline:
        if decisions[i] != decisions[i - 1]:
            # try to postpone the switch: let the previous actor run one more step
            trial_dec = decisions[:i] + [decisions[i - 1]] + decisions[i:]
            trial = dict(copy.deepcopy(best), decisions=trial_dec)
            out = execute(trial)
            if not out.get('error') and shr.vclass(out) == want:
                decisions = out.get('decisions') or trial_dec
                best = dict(trial, decisions=decisions)
                best_res = out
                continue
        i += 1
    return best, best_res
