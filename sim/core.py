"""Seams through which the library touches the world, owned by the simulator.

Nothing in /repo is edited: the module globals ``open``, ``os``, ``uuid``, ``fcntl`` of
``disk_objectstore.container`` / ``utils`` are rebound to the proxies below, ``pathlib.Path.stat`` is wrapped,
and SQLAlchemy's global ``Engine`` events give a point before every statement and COMMIT (sqlseam.py).

Every seam call goes through ``SIM.point(kind, path, mutating)`` *before* the real call is made. A point
 1. parks the calling actor thread if a scheduler is installed (sched.py) - the scheduler decides who runs;
 2. is logged (event digest - the determinism self-test compares these);
 3. is shown to the installed hooks (crash recorder, fault injector, monitors), which may raise or return a fault.
"""

from __future__ import annotations

import builtins
import collections
import errno
import fcntl as real_fcntl
import hashlib
import os as real_os
import pathlib
import sys
import threading
import weakref

REPO_DIR = real_os.environ.get('VERIF_REPO_DIR', '/repo')


class HarnessError(Exception):
    """A problem of the harness itself (never a property violation)."""


class SimAbort(BaseException):
    """Raised inside an actor thread that is being killed / unwound."""


class Sim:  # pylint: disable=too-many-instance-attributes
    """Process-wide simulator state; ``reset`` starts a new run."""

    def __init__(self):
        self.tl = threading.local()
        self.root = None
        self.reset(None)

    def reset(self, root, seed=0, keep_trace=False, fs_rng=None):
        self.root = real_os.path.realpath(root) if root else None
        self.run_id = getattr(self, 'run_id', 0) + 1
        self.seed = seed
        self.frozen = False  # True: the run is over, late seam calls (unwinding actors, finalizers) are not events
        self.step = 0
        self.digest = hashlib.sha1()
        self.trace = [] if keep_trace else None
        self.hooks = []
        self.open_files = weakref.WeakValueDictionary()  # weak: a dropped stream closes its file
        self.fds = {}
        self.ledger = None  # inode -> bytes at last fsync (None: not tracked)
        self.sched = None
        self.uuid_counter = 0
        self.fs_rng = fs_rng
        self.kinds = collections.Counter()
        self.max_io = 0
        self.max_open_data = 0
        self.io_watch = False
        self.io_trace = None  # list of (rel path, file position, length) of every read when enabled
        self.fsyncs = []  # (step, rel)
        self.probes = collections.Counter()

    # -- helpers -------------------------------------------------------------------------------------------------
    def quiet(self):
        return _Quiet(self)

    def is_quiet(self):
        return getattr(self.tl, 'quiet', 0) > 0

    def rel(self, path):
        """Path relative to the scratch root, None if it is not ours."""
        if self.root is None:
            return None
        if path == '':
            return ''
        if isinstance(path, int):
            return self.fds.get(path)
        try:
            spath = real_os.fspath(path)
        except TypeError:
            return None
        if isinstance(spath, bytes):
            spath = spath.decode()
        if spath == self.root:
            return '.'
        if spath.startswith(self.root + '/'):
            return spath[len(self.root) + 1 :]
        return None

    def point(self, kind, path=None, mut=False, path2=None):
        """A seam call is about to happen. Returns None or a fault name the seam has to act out."""
        if self.root is None or self.frozen or self.is_quiet() or path is None:
            return None
        rel = self.rel(path)
        if rel is None:
            return None
        if path2 is not None:
            rel = f'{rel}->{self.rel(path2)}'
        actor = 'main'
        sched = self.sched
        if sched is not None:
            act = sched.current_actor()
            if act is None:
                return None  # harness thread while actors are alive: not an event
            actor = act.name
            act.park(kind, rel, mut)
        self.step += 1
        event = (self.step, actor, kind, rel, mut)
        self.digest.update(repr(event[1:]).encode())
        if self.trace is not None:
            self.trace.append(event)
        self.kinds[kind] += 1
        fault = None
        for hook in self.hooks:
            res = hook(event)
            if res is not None:
                fault = res
        return fault

    def note_fsync(self, fdesc):
        rel = self.fds.get(fdesc)
        self.fsyncs.append((self.step, rel))
        if self.ledger is None:
            return
        stat = real_os.fstat(fdesc)
        import stat as stat_mod  # pylint: disable=import-outside-toplevel

        if stat_mod.S_ISREG(stat.st_mode):
            with builtins.open(f'/proc/self/fd/{fdesc}', 'rb') as handle:
                self.ledger[stat.st_ino] = handle.read()

    def next_uuid_hex(self):
        self.uuid_counter += 1
        return hashlib.md5(f'{self.seed}-{self.uuid_counter}'.encode()).hexdigest()

    def data_files_open(self):
        """rel paths of currently open (library-opened) files."""
        return sorted(f.rel for f in self.open_files.values())


class _Quiet:
    def __init__(self, sim):
        self.sim = sim

    def __enter__(self):
        self.sim.tl.quiet = getattr(self.sim.tl, 'quiet', 0) + 1

    def __exit__(self, *exc):
        self.sim.tl.quiet -= 1


SIM = Sim()


class SimFile:
    """Delegating proxy around a real file object; every I/O method is a point."""

    def __init__(self, sim, raw, rel, mode):
        self._sim = sim
        self._raw = raw
        self.rel = rel
        self._mode = mode
        self._writable = any(c in mode for c in 'wxa+')
        self._fd = None
        self._abs = real_os.path.join(sim.root, rel)
        self._run = sim.run_id
        sim.open_files[id(self)] = self
        sim.max_open_data = max(sim.max_open_data, len(sim.open_files))

    def __getattr__(self, name):
        return getattr(self._raw, name)

    def _path(self):
        # a file object that outlives its run (closed by a finalizer later) is not an event of the current run
        if self._sim.run_id != self._run:
            return None
        return self._abs

    def fileno(self):
        fdesc = self._raw.fileno()
        self._fd = fdesc
        self._sim.fds[fdesc] = self.rel
        return fdesc

    def read(self, size=-1):
        fault = self._sim.point('f.read', self._path(), False)
        if fault == 'shortread' and size is not None and size > 1:
            size = max(1, size // 2)
        data = self._raw.read(size)
        if self._sim.io_watch:
            self._sim.max_io = max(self._sim.max_io, len(data))
        if self._sim.io_trace is not None and data:
            self._sim.io_trace.append((self.rel, self._raw.tell() - len(data), len(data)))
        return data

    def write(self, data):
        fault = self._sim.point('f.write', self._path(), True)
        if self._sim.io_watch:
            self._sim.max_io = max(self._sim.max_io, len(data))
        if fault == 'enospc':
            part = data[: len(data) // 2]
            if part:
                self._raw.write(part)
                self._raw.flush()
            raise OSError(errno.ENOSPC, 'No space left on device (injected)')
        return self._raw.write(data)

    def flush(self):
        if self._writable:
            self._sim.point('f.flush', self._path(), True)
        return self._raw.flush()

    def truncate(self, size=None):
        self._sim.point('f.truncate', self._path(), True)
        return self._raw.truncate(size)

    def seek(self, target, whence=0):
        self._sim.point('f.seek', self._path(), False)
        return self._raw.seek(target, whence)

    def close(self):
        if self._raw.closed:
            return None
        fault = self._sim.point('f.close', self._path(), self._writable)
        self._forget()
        if fault == 'close-lost':
            # the descriptor is closed, but what this close would have flushed never reaches the file
            fdesc = real_os.dup(self._raw.fileno())
            try:
                size_before = real_os.fstat(fdesc).st_size
                try:
                    self._raw.close()
                finally:
                    real_os.ftruncate(fdesc, size_before)
            finally:
                real_os.close(fdesc)
            raise OSError(errno.EIO, 'Input/output error at close (injected)')
        return self._raw.close()

    def _forget(self):
        self._sim.open_files.pop(id(self), None)
        if self._fd is not None:
            self._sim.fds.pop(self._fd, None)
            self._fd = None

    def __enter__(self):
        return self

    def __exit__(self, *exc):
        self.close()

    def __iter__(self):
        return iter(self._raw)

    def __del__(self):
        try:
            self._forget()
            if not self._raw.closed:
                self._raw.close()
        except Exception:  # pylint: disable=broad-except
            pass


def sim_open(file, mode='r', *args, **kwargs):  # pylint: disable=keyword-arg-before-vararg
    sim = SIM
    rel = sim.rel(file)
    if rel is None or sim.is_quiet() or (sim.sched is not None and sim.sched.current_actor() is None):
        return builtins.open(file, mode, *args, **kwargs)
    mut = any(c in mode for c in 'wxa+')
    sim.point('open:' + mode, file, mut)
    try:
        raw = builtins.open(file, mode, *args, **kwargs)
    except FileNotFoundError:
        # probe: the library located a file (through the index or a listing) that is gone when it opens it - the
        # situation its fallbacks (re-query after closing the session, LazyLooseStream retry) exist for
        sim.probes['open_enoent_' + rel.split('/')[1 if '/' in rel else 0] + '_in_' + sys._getframe(1).f_code.co_name] += 1  # pylint: disable=protected-access
        raise
    return SimFile(sim, raw, rel, mode)


class OsProxy:
    """Stands in for the ``os`` module inside the library's modules."""

    def __init__(self, sim):
        self._sim = sim

    def __getattr__(self, name):
        return getattr(real_os, name)

    def rename(self, src, dst):
        self._sim.point('os.rename', src, True, dst)
        return real_os.rename(src, dst)

    def replace(self, src, dst):
        self._sim.point('os.replace', src, True, dst)
        return real_os.replace(src, dst)

    def link(self, src, dst):
        self._sim.point('os.link', src, True, dst)
        return real_os.link(src, dst)

    def remove(self, path):
        self._sim.point('os.remove', path, True)
        return real_os.remove(path)

    def unlink(self, path):
        self._sim.point('os.unlink', path, True)
        return real_os.unlink(path)

    def mkdir(self, path, *args, **kwargs):
        self._sim.point('os.mkdir', path, True)
        return real_os.mkdir(path, *args, **kwargs)

    def makedirs(self, path, *args, **kwargs):
        self._sim.point('os.makedirs', path, True)
        return real_os.makedirs(path, *args, **kwargs)

    def listdir(self, path='.'):
        sim = self._sim
        sim.point('os.listdir', path, False)
        names = sorted(real_os.listdir(path))
        if sim.fs_rng is not None and sim.rel(path) is not None and not sim.is_quiet():
            sim.fs_rng.shuffle(names)
        return names

    def open(self, path, flags, *args, **kwargs):
        self._sim.point('os.open', path, False)
        fdesc = real_os.open(path, flags, *args, **kwargs)
        rel = self._sim.rel(path)
        if rel is not None:
            self._sim.fds[fdesc] = rel
        return fdesc

    def close(self, fdesc):
        self._sim.point('os.close', fdesc, False)
        self._sim.fds.pop(fdesc, None)
        return real_os.close(fdesc)

    def fsync(self, fdesc):
        self._sim.point('os.fsync', fdesc, True)
        res = real_os.fsync(fdesc)
        if self._sim.root is not None and self._sim.rel(fdesc) is not None:
            self._sim.note_fsync(fdesc)
        return res

    def fstat(self, fdesc):
        self._sim.point('os.fstat', fdesc, False)
        return real_os.fstat(fdesc)


class FcntlProxy:
    def __init__(self, sim):
        self._sim = sim

    def __getattr__(self, name):
        return getattr(real_fcntl, name)

    def fcntl(self, fdesc, cmd, *args):
        sim = self._sim
        sim.point('fcntl', fdesc, True)
        res = real_fcntl.fcntl(fdesc, cmd, *args)
        full = getattr(real_fcntl, 'F_FULLFSYNC', None)
        if full is not None and cmd == full and sim.rel(fdesc) is not None:
            sim.note_fsync(fdesc)
        if cmd == real_fcntl.F_DUPFD and sim.rel(fdesc) is not None:
            sim.fds[res] = f'{sim.rel(fdesc)}#dup'
        return res


class _FakeUuid:
    def __init__(self, hexstr):
        self.hex = hexstr

    def __str__(self):
        return self.hex


class UuidProxy:
    def __init__(self, sim):
        self._sim = sim

    def __getattr__(self, name):
        import uuid as real_uuid  # pylint: disable=import-outside-toplevel

        return getattr(real_uuid, name)

    def uuid4(self):
        if self._sim.root is None:
            import uuid as real_uuid  # pylint: disable=import-outside-toplevel

            return real_uuid.uuid4()
        return _FakeUuid(self._sim.next_uuid_hex())


_INSTALLED = {}


def install():
    """Import the library from REPO_DIR and put the seams in place (idempotent)."""
    if _INSTALLED:
        return _INSTALLED['lib']
    if REPO_DIR not in sys.path:
        sys.path.insert(0, REPO_DIR)
    import disk_objectstore  # pylint: disable=import-outside-toplevel
    import disk_objectstore.container as cont  # pylint: disable=import-outside-toplevel
    import disk_objectstore.utils as utils  # pylint: disable=import-outside-toplevel

    libfile = real_os.path.realpath(disk_objectstore.__file__)
    if not libfile.startswith(real_os.path.realpath(REPO_DIR) + '/'):
        raise HarnessError(f'disk_objectstore imported from {libfile}, expected under {REPO_DIR}')

    osproxy = OsProxy(SIM)
    for mod in (cont, utils):
        mod.open = sim_open
        mod.os = osproxy
        mod.uuid = UuidProxy(SIM)
    utils.fcntl = FcntlProxy(SIM)

    orig_stat = pathlib.Path.stat

    def sim_stat(self, *, follow_symlinks=True):
        SIM.point('stat', self, False)
        return orig_stat(self, follow_symlinks=follow_symlinks)

    pathlib.Path.stat = sim_stat

    from . import sqlseam  # pylint: disable=import-outside-toplevel

    sqlseam.install(SIM)
    _INSTALLED['lib'] = disk_objectstore
    return disk_objectstore
