"""Engine B: a victim operation under crash / power-loss / single-I/O-fault injection (C05, C06, C17).

crash / powerloss: the victim runs once; at every boundary *before* a mutating seam call (file write/flush/close/
truncate, fsync, rename/replace/link/unlink/mkdir, SQL INSERT/UPDATE/DELETE/COMMIT) the container folder is copied as it
is on disk - bytes still sitting in the library's Python buffers are absent, exactly as after kill -9. For powerloss
every regular file under loose/ packs/ sandbox/ duplicates/ of the copy is then replaced by what its inode held at its
last fsync (fsync ledger). The images are verified raw (sqlite3+zlib) and through a fresh Container.

fault: for a sample / all of the victim's seam calls, the pre-state snapshot is restored and the victim re-run on a fresh
handle with exactly that call failing; afterwards image oracle, fault cleared, stale locks removed, victim re-run.
"""

from __future__ import annotations

import errno
import hashlib
import json
import os
import random
import shutil

from . import gen, rawread
from .core import SIM, HarnessError, install
from .hist import classify_exception, drop_scratch, new_scratch, short_tb
from .oracles import check_views
from .world import DEFAULT_KNOBS, Knobs, Violation, World, hkey, make_config, make_pool_specs

DATA_DIRS = ('loose', 'packs', 'sandbox', 'duplicates')
VICTIMS = ['add_loose', 'add_pack', 'pack_loose', 'clean', 'delete', 'repack', 'repack_pack', 'import', 'loosen']


IO_FAULTS_BY_VICTIM = {
    # metadata / SQL calls (they carry no pack data) each victim kind makes, with the fault kinds that apply
    'repack': [['os.link', 'eperm'], ['os.link', 'eperm'], ['os.link', 'eio'], ['os.remove', 'eperm'], ['os.remove', 'eio'], ['os.unlink', 'eio'], ['open', 'eio'], ['sql:', 'sqlerr'], ['sql:COMMIT', 'sqlerr']],
    'pack_loose': [['open', 'eio'], ['open', 'eperm'], ['open:x', 'eexist'], ['os.remove', 'eperm'], ['os.remove', 'eio'], ['sql:', 'sqlerr'], ['sql:COMMIT', 'sqlerr']],
    'add_pack': [['open', 'eio'], ['open:x', 'eexist'], ['sql:', 'sqlerr'], ['sql:COMMIT', 'sqlerr']],
    'add_loose': [['open', 'eio'], ['os.rename', 'eio'], ['os.replace', 'eio'], ['os.replace', 'eperm']],
    'clean': [['os.remove', 'eio'], ['os.remove', 'eperm'], ['sql:', 'sqlerr']],
    'delete': [['os.remove', 'eio'], ['os.remove', 'eperm'], ['sql:', 'sqlerr'], ['sql:COMMIT', 'sqlerr']],
}
IO_FAULTS_BY_VICTIM['repack_pack'] = IO_FAULTS_BY_VICTIM['repack']
IO_FAULTS_BY_VICTIM['import'] = IO_FAULTS_BY_VICTIM['add_pack']
IO_FAULTS_BY_VICTIM['loosen'] = IO_FAULTS_BY_VICTIM['add_loose']


def gen_io_fault(rng, kind):
    """C06 variant: one failing metadata / SQL call of the victim combined with power loss and a retry on the same handle."""
    choices = IO_FAULTS_BY_VICTIM.get(kind)
    if not choices:
        return None
    return list(rng.choice(choices)) + [rng.choice([1, 1, 2, 3])]


def generate(prop, seed, tier='quick', sub='crash'):
    rng = random.Random(seed)
    pool = make_pool_specs(rng, n_small=8)
    # keep objects small: one image per boundary is copied
    pool = [[k, min(n, 5000), s] for k, n, s in pool]
    if rng.random() < 0.3:
        # one object larger than the 8 KiB buffer of Python's BufferedWriter (its writes bypass the buffer)
        pool.append([rng.choice(['rand', 'text', 'mixed']), rng.choice([8193, 9000, 20000]), rng.randrange(1 << 30)])
    config = make_config(rng)
    config_b = make_config(rng)
    opts = gen.make_opts(rng, len(pool))
    weights = dict(gen.BASE_WEIGHTS, reinit=0, reopen=0.3, plant_duplicate=0.6)
    pre_ops = gen.gen_history(rng, len(pool), rng.randint(2, 10), weights=weights, opts=opts, with_b=True)
    # (C17 also takes read operations as victims: under a fault a read may raise, never return wrong bytes)
    kind = rng.choice(VICTIMS + ['add_pack', 'pack_loose'] + (['read', 'read'] if sub == 'fault' else []))
    vopts = gen.make_opts(rng, len(pool))
    victim = gen.gen_op(rng, kind, len(pool), vopts)
    victim.pop('from_key', None)
    if victim.pop('last_indexed', None):
        victim['keys'] = [rng.randrange(64)]  # expectations() resolves the targets of a delete victim from 'keys'
    if victim.get('via') == 'offset':
        victim['via'] = 'stream' if kind == 'add_loose' else 'bytesio'  # expectations() predicts the keys from the pool contents
    if kind == 'add_pack':
        # the direct-to-pack path has the most option-dependent branches: draw its options uniformly (no swarm
        # restriction) and make "content already known, followed by new content" likely
        victim.update(
            no_holes=rng.random() < 0.6,
            read_twice=rng.random() < 0.5,
            compress=rng.random() < 0.5,
            api=rng.choice(['objects', 'streams', 'single']),
        )
        used = [c for op in pre_ops for c in op.get('cs', [op['c']] if 'c' in op else []) if op.get('t', 'c') == 'c']
        if used and rng.random() < 0.6:
            fresh = [rng.randrange(len(pool)) for _ in range(rng.randint(1, 3))]
            victim['cs'] = [rng.choice(used)] + fresh if rng.random() < 0.7 else fresh[:1] + [rng.choice(used)] + fresh[1:]
    if kind == 'add_loose':
        victim.setdefault('c', rng.randrange(len(pool)))
    if kind == 'loosen':
        victim['absent'] = False
    if kind == 'import':
        # several objects per call and a source that holds several: flushes of the memory cache in the middle of the call
        victim['keys'] = [rng.randrange(64) for _ in range(rng.choice([2, 3, 4, 6]))]
        # ... of which several are new to the destination (contents that only the source holds), stored there in any form
        first = len(pool)
        for _ in range(rng.randint(2, 6)):
            pool.append([rng.choice(['rand', 'text', 'mixed']), rng.choice([20, 60, 200, 600, rng.randint(1, 900)]), rng.randrange(1 << 30)])
        new_idx = list(range(first, len(pool)))
        rng.shuffle(new_idx)
        cut = rng.randint(0, len(new_idx))
        if new_idx[:cut]:
            pre_ops.insert(0, {'op': 'add_pack', 'cs': new_idx[:cut], 'api': 'objects', 'via': 'bytesio', 'compress': rng.random() < 0.5, 'no_holes': False, 'read_twice': True, 'do_fsync': True, 'callback': False, 'seed': 0, 't': 'b'})
        for cidx in new_idx[cut:]:
            pre_ops.insert(0, {'op': 'add_loose', 'c': cidx, 'via': 'bytes', 'seed': 0, 't': 'b'})
    if kind == 'import' and not any(op.get('t') == 'b' for op in pre_ops):
        pre_ops = [dict(gen.gen_op(rng, 'add_pack', len(pool), opts), t='b'), dict(gen.gen_op(rng, 'add_loose', len(pool), opts), t='b')] + pre_ops
    # make the victim meaty: faults and crash points only matter inside operations that have in-flight state
    if kind == 'pack_loose' and rng.random() < 0.7:
        # several loose objects right before the victim, often spread over several packs
        for _ in range(rng.randint(2, 6)):
            pre_ops.append({'op': 'add_loose', 'c': rng.randrange(len(pool)), 'via': 'bytes', 'seed': rng.randrange(1 << 20)})
        if rng.random() < 0.7:
            config['pack_size_target'] = rng.choice([1, 50, 500, 3000])
    if kind == 'clean' and rng.random() < 0.6:
        # objects that are both loose and packed (packed without cleaning), plus some that are only loose
        for _ in range(rng.randint(1, 4)):
            pre_ops.append({'op': 'add_loose', 'c': rng.randrange(len(pool)), 'via': 'bytes', 'seed': rng.randrange(1 << 20)})
        pre_ops.append({'op': 'pack_loose', 'compress': rng.choice(['no', 'yes', 'auto']), 'validate': True, 'clean_per_pack': False, 'do_fsync': True, 'callback': False})
        if rng.random() < 0.5:
            pre_ops.append({'op': 'add_loose', 'c': rng.randrange(len(pool)), 'via': 'bytes', 'seed': rng.randrange(1 << 20)})
    if kind in ('repack', 'repack_pack') and rng.random() < 0.6:
        # packs with holes in several places, several packs
        cs = [rng.randrange(len(pool)) for _ in range(rng.randint(3, 7))]
        pre_ops.append({'op': 'add_pack', 'cs': cs, 'api': 'objects', 'via': 'bytesio', 'compress': rng.random() < 0.5, 'no_holes': False, 'read_twice': True, 'do_fsync': True, 'callback': False, 'seed': rng.randrange(1 << 20)})
        pre_ops.append({'op': 'delete', 'keys': [rng.randrange(64) for _ in range(rng.randint(1, 3))], 'absent': 0, 'repeats': 0, 'seed': rng.randrange(1 << 20)})
        if rng.random() < 0.6:
            config['pack_size_target'] = rng.choice([1, 50, 500, 3000])
    if sub == 'powerloss':
        # C06 is stated for the default fsync settings
        victim['do_fsync'] = True
    if kind in ('add_pack', 'import') and rng.random() < 0.5:
        config['pack_size_target'] = rng.choice([1, 50, 500])
    thorough = tier == 'thorough'
    followups = None
    if sub in ('restart', 'faultcont'):
        # C13 is about repack-free histories: no repack before, in, or after the interrupted operation
        pre_ops = [op for op in pre_ops if op['op'] not in ('repack', 'repack_pack')]
        if kind in ('repack', 'repack_pack', 'loosen', 'delete'):
            kind = rng.choice(['add_pack', 'pack_loose', 'add_pack', 'import'])
            victim = gen.gen_op(rng, kind, len(pool), vopts)
            victim.pop('from_key', None)
            if victim.get('via') == 'offset':
                victim['via'] = 'bytesio'
        config['pack_size_target'] = rng.choice([50, 500, 3000, 20000])
        followups = []
        for _ in range(rng.randint(2, 4)):
            fop = gen.gen_op(rng, rng.choice(['add_pack', 'add_pack', 'pack_loose', 'add_loose', 'clean']), len(pool), vopts)
            fop.pop('from_key', None)
            fop.setdefault('c', rng.randrange(len(pool)))
            followups.append(fop)
    if kind == 'add_pack' and sub in ('crash', 'powerloss') and rng.random() < 0.03:
        # a batch that crosses the library's 1000-row paging / flushing granularity in one call
        victim['mass'] = 1000 + rng.randint(0, 60)
    pending = None
    if sub not in ('fault', 'faultcont') and not victim.get('mass') and rng.random() < 0.15:
        # the victim's handle holds index rows written with do_commit=False (still uncommitted); prefer contents that
        # are already stored (loose) - they must survive whatever the victim and the crash do
        loose_cs = [op['c'] for op in pre_ops if op['op'] == 'add_loose' and 'c' in op and op.get('t', 'c') == 'c']
        pcs = [rng.choice(loose_cs) if loose_cs and rng.random() < 0.7 else rng.randrange(len(pool)) for _ in range(rng.randint(1, 4))]
        pending = {'cs': pcs, 'compress': rng.random() < 0.4}
        if rng.random() < 0.5:
            victim = {'op': 'clean', 'vacuum': False}
            kind = 'clean'
    return {
        'engine': 'B',
        'prop': prop,
        'sub': sub,
        'seed': seed,
        'tier': tier,
        'config': config,
        'config_b': config_b,
        'knobs': dict(DEFAULT_KNOBS),
        'pool': pool,
        'ops': pre_ops,
        'victim': victim,
        'positions': 'all' if thorough else 'sample',
        'nsample': {'fault': 24, 'faultcont': 8}.get(sub, 16),
        'fresh_handle': rng.random() < 0.4,
        # C06 variant: the n-th fsync of the victim fails
        'fsync_fault': rng.randint(1, 4) if sub == 'powerloss' and rng.random() < 0.25 else None,
        # C06 variant: one failing metadata / SQL call (no pack data carried) combined with power loss and a retry
        # (repack is the operation that lives on link / remove / unlink: it gets the combination more often)
        'io_fault': gen_io_fault(rng, kind) if sub == 'powerloss' and rng.random() < (0.4 if kind in ('repack', 'repack_pack') else 0.2) else None,
        # the victim's handle holds index rows written with do_commit=False (still uncommitted)
        'pending_add': pending if sub not in ('restart', 'faultcont') else None,
        'followups': followups,
    }


# ---------------------------------------------------------------------------------------------------------------------
# expectations


def expectations(world, side, victim):
    """(pre, maybe): keys that must survive with their bytes / keys that may or may not be there."""
    model = dict(side.model)
    name = victim['op']
    maybe = {}
    pre = dict(model)
    if name == 'add_loose':
        data = world.content(victim['c'])
        maybe[hkey(side.hash_type, data)] = data
    elif name == 'add_pack':
        for cidx in list(victim['cs']) + [c for batch in victim.get('pending', []) for c in batch]:
            data = world.content(cidx)
            maybe[hkey(side.hash_type, data)] = data
        for i in range(victim.get('mass', 0)):
            data = b'mass-%d-%d' % (victim.get('seed', 0), i)
            maybe[hkey(side.hash_type, data)] = data
    elif name == 'delete':
        for j in victim.get('keys', []):
            key = world.model_key(side, j)
            if key is not None:
                maybe[key] = model[key]
                pre.pop(key, None)
    elif name == 'import':
        src = world.sides[victim['src']]
        for j in victim.get('keys', []):
            key = world.model_key(src, j)
            if key is not None:
                data = src.model[key]
                maybe[hkey(side.hash_type, data)] = data
    for key in list(maybe):
        if key in pre:
            del maybe[key]  # it existed before and is not targeted by a deletion: it must survive
    return pre, maybe


def image_oracle(lib, folder, pre, maybe, victim_name, label):  # pylint: disable=too-many-branches
    """Raise Violation if the on-disk state ``folder`` breaks the crash-consistency contract."""
    from disk_objectstore.exceptions import NotExistent  # pylint: disable=import-outside-toplevel

    repack = victim_name in ('repack', 'repack_pack')
    state = rawread.read_state(folder)
    problems, observed = rawread.verify(folder, model=None, allow_repack_pack=repack, state=state)
    known = dict(pre)
    known.update(maybe)
    if problems:
        raise Violation('image:' + problems[0].split(' ')[0], f'{label}: ' + '; '.join(problems[:4]))
    for key, data in pre.items():
        obs = observed.get(key)
        if obs is None:
            raise Violation('image:pre-object-lost', f'{label}: key={key[:12]} ({len(data)} bytes) is neither indexed nor loose')
    for key, obs in observed.items():
        if key not in known:
            raise Violation('image:unexpected-key', f'{label}: key={key[:12]} visible but never stored')
        row = obs['row']
        if row is not None:
            got, prob = rawread.row_bytes(folder, row)
            if prob or got != known[key]:
                raise Violation('image:wrong-bytes-raw', f'{label}: key={key[:12]} via index row {prob or ""}')
        if obs['loose']:
            with open(state.loose[key], 'rb') as handle:
                if handle.read() != known[key]:
                    raise Violation('image:wrong-bytes-raw', f'{label}: key={key[:12]} loose file differs')
    repack_rows = any(r['pack_id'] == -1 for r in state.rows)
    cont = lib.Container(folder)
    through_handle = list(known.items())
    if len(through_handle) > 300:
        # mass batches: every visible row was already checked raw above; through a handle read a spread of 300 keys
        step = len(through_handle) // 300 + 1
        through_handle = through_handle[::step] + through_handle[-20:]
    try:
        for key, data in through_handle:
            try:
                got = cont.get_object_content(key)
            except NotExistent:
                if key in pre:
                    raise Violation('image:pre-object-unreadable', f'{label}: fresh handle: NotExistent for key={key[:12]}') from None
                continue
            except Exception as exc:  # pylint: disable=broad-except
                if repack and repack_rows:
                    continue  # an interrupted repack left the index pointing at the temporary pack: loud failure allowed
                raise Violation(
                    'image:read-raised', f'{label}: fresh handle: {type(exc).__name__} for key={key[:12]}: {exc!r}'[:600]
                ) from None
            if got != data:
                raise Violation('image:wrong-bytes', f'{label}: fresh handle returned {len(got)} bytes for key={key[:12]}, expected {len(data)}')
    finally:
        cont.close()
    return state


def state_digest(state):
    return hashlib.sha1(
        repr(
            (
                sorted((r['hashkey'][:8], r['pack_id'], r['offset'], r['length'], r['compressed']) for r in state.rows),
                sorted(k[:8] for k in state.loose),
                sorted(state.pack_files.items()),
                len(state.sandbox),
                len(state.duplicates),
                sorted(state.other_pack_entries),
            )
        ).encode()
    ).hexdigest()[:12]


# ---------------------------------------------------------------------------------------------------------------------
# crash / power-loss recorder


class Recorder:
    """Hook: copies the container folder before every mutating seam call of the victim."""

    def __init__(self, folder, imgdir, powerloss, cap=600, only=None):
        self.folder = folder
        self.imgdir = imgdir
        self.powerloss = powerloss
        self.images = []  # (k, kind, rel, path)
        self.count = 0
        self.cap = cap
        self.only = only  # long victims: boundaries chosen beforehand from a preview execution (no cap then)
        os.makedirs(imgdir, exist_ok=True)

    def __call__(self, event):
        _, _, kind, rel, mut = event
        if not mut:
            return None
        self.take(kind, rel)
        return None

    def take(self, kind, rel):
        k = self.count
        self.count += 1
        if self.only is not None:
            if k not in self.only and kind != 'end':
                return
        elif k >= self.cap:
            return
        dst = os.path.join(self.imgdir, str(k))
        shutil.copytree(self.folder, dst)
        if self.powerloss:
            apply_ledger(self.folder, dst, SIM.ledger)
        self.images.append((k, kind, rel, dst))


def init_ledger(folder):
    ledger = {}
    for sub in DATA_DIRS:
        for dirpath, _, files in os.walk(os.path.join(folder, sub)):
            for name in files:
                path = os.path.join(dirpath, name)
                with open(path, 'rb') as handle:
                    ledger[os.stat(path).st_ino] = handle.read()
    return ledger


def apply_ledger(live, image, ledger):
    """Cut every regular data file of ``image`` back to what its inode held at its last fsync."""
    for sub in DATA_DIRS:
        base = os.path.join(live, sub)
        for dirpath, _, files in os.walk(base):
            for name in files:
                path = os.path.join(dirpath, name)
                if name.endswith('.lock'):
                    continue
                ino = os.stat(path).st_ino
                durable = ledger.get(ino, b'')
                target = os.path.join(image, os.path.relpath(path, live))
                with open(target, 'wb') as handle:
                    handle.write(durable)


# ---------------------------------------------------------------------------------------------------------------------
# fault injector

FAULTS_FOR = {
    'open': ['eio', 'eperm'],
    'f.read': ['eio'],
    'f.write': ['eio', 'enospc'],
    'f.flush': ['eio'],
    'f.close': ['eio', 'close-lost'],
    'f.truncate': ['eio'],
    'os.fsync': ['eio'],
    'fcntl': ['eio'],
    'os.rename': ['eio'],
    'os.replace': ['eio', 'eperm'],
    'os.link': ['eio'],
    'os.remove': ['eio', 'eperm'],
    'os.unlink': ['eio'],
    'os.mkdir': ['eio'],
    'os.listdir': ['eio'],
    'os.open': ['eio'],
    'os.fstat': ['eio'],
    'stat': ['eio'],
    'sql': ['sqlerr'],
}


def fault_kinds_for(kind, mut):
    if kind.startswith('open:x'):
        # exclusive creation (pack lock files): besides I/O errors, "somebody else holds it right now" (transient)
        return FAULTS_FOR['open'] + ['eexist']
    if kind.startswith('open'):
        return FAULTS_FOR['open']
    if kind.startswith('sql:'):
        return [] if kind in ('sql:BEGIN', 'sql:ROLLBACK') else FAULTS_FOR['sql']
    if kind == 'f.close' and not mut:
        return []
    return FAULTS_FOR.get(kind, [])


class Injector:
    """Hook: makes exactly the ``index``-th seam call of the victim fail with ``fault``."""

    def __init__(self, index, fault):
        self.index = index
        self.fault = fault
        self.count = 0
        self.fired = None

    def __call__(self, event):
        _, _, kind, rel, _ = event
        i = self.count
        self.count += 1
        if i != self.index or self.fired:
            return None
        self.fired = (kind, rel)
        if self.fault == 'eio':
            raise OSError(errno.EIO, f'Input/output error (injected at {kind} {rel})')
        if self.fault == 'eperm':
            raise PermissionError(errno.EACCES, f'Permission denied (injected at {kind} {rel})')
        if self.fault == 'eexist':
            raise FileExistsError(errno.EEXIST, f'File exists (injected at {kind} {rel}: held by another client at this moment)')
        if self.fault == 'sqlerr':
            import sqlite3  # pylint: disable=import-outside-toplevel

            from sqlalchemy.exc import OperationalError  # pylint: disable=import-outside-toplevel

            raise OperationalError(kind, None, sqlite3.OperationalError('disk I/O error (injected)'))
        return self.fault  # 'enospc' / 'close-lost' are acted out by the seam


class Counter:
    def __init__(self):
        self.events = []

    def __call__(self, event):
        self.events.append((event[2], event[3], event[4]))
        return None


# ---------------------------------------------------------------------------------------------------------------------


def _lib_exception_to_violation(exc, step, prefix='unexpected-exception:'):
    return {'class': prefix + type(exc).__name__, 'detail': f'{exc!r}\n{short_tb(exc)}'[:2000], 'step': step}


def final_state_check(world, side, label):
    """After the victim (or its re-run) completed: views + raw equal the model."""
    with SIM.quiet():
        problems, _ = rawread.verify(side.folder, model=side.model)
        if problems:
            raise Violation('final:' + problems[0].split(' ')[0], f'{label}: ' + '; '.join(problems[:4]))
        fresh = world.lib.Container(side.folder)
        try:
            check_views(world, side, fresh, random.Random(7), light=True)
        finally:
            fresh.close()


def execute(case):  # pylint: disable=too-many-locals,too-many-branches,too-many-statements
    lib = install()
    seed = case['seed']
    sub = case['sub']
    root = new_scratch()
    SIM.reset(root, seed=seed, fs_rng=random.Random(seed + 17))
    result = {'ok': True, 'violation': None, 'error': None}
    behaviours = set()
    faults = {}
    evals = 0
    probes = {'boundaries': 0, 'victim_raised': 0, 'victim_completed': 0, 'stale_locks_removed': 0, 'rerun_ok': 0, 'fault_swallowed': 0}
    world = None
    victim = case['victim']
    rng = random.Random(seed ^ 0xB0B)
    try:
        with Knobs(case.get('knobs')):
            world = World(root, case, None)
            try:
                world.create_side('c', case['config'])
                if any(op.get('t') == 'b' or op.get('src') == 'b' for op in case['ops'] + [victim]):
                    world.create_side('b', case['config_b'])
                world.run(case['ops'])
                side = world.sides['c']
                if victim['op'] == 'import' and 'b' not in world.sides:
                    raise HarnessError('import victim without side b')
                # resolve symbolic key arguments once, so that re-runs of the victim target the same objects
                victim = dict(victim)
                if victim['op'] == 'delete':
                    victim['concrete'] = [k for k in dict.fromkeys(world.model_key(side, j) for j in victim.get('keys', [])) if k]
                if victim['op'] == 'loosen' and side.model:
                    victim['concrete_key'] = world.model_key(side, victim.get('key', 0))
                case = dict(case, victim=victim)
                pre, maybe = expectations(world, side, victim)
                if (case.get('fresh_handle') and not case.get('pending_add')) or sub in ('fault', 'faultcont'):
                    world.op_reopen(side, {})
                if case.get('pending_add') and sub != 'fault':
                    # the handle that runs the victim has objects written with the documented do_commit=False option:
                    # their index rows are pending in its session. Contents that were stored before must survive
                    # whatever the victim and the crash do; the new ones may or may not become visible.
                    datas = [world.content(c) for c in case['pending_add']['cs']]
                    with SIM.quiet():
                        side.handles[0].add_objects_to_pack(datas, compress=bool(case['pending_add'].get('compress')), do_commit=False)
                    for data in datas:
                        key = hkey(side.hash_type, data)
                        if key not in pre and not (victim['op'] == 'delete' and key in maybe):
                            maybe[key] = data
                if sub in ('crash', 'powerloss'):
                    evals, behaviours = run_recorded(lib, world, side, case, pre, maybe, rng, probes, faults)
                elif sub == 'restart':
                    evals, behaviours = run_restart(lib, world, side, case, pre, maybe, rng, probes, faults)
                elif sub == 'faultcont':
                    evals, behaviours = run_faultcont(lib, world, side, case, pre, maybe, rng, probes, faults)
                else:
                    evals, behaviours = run_faulted(lib, world, side, case, pre, maybe, rng, probes, faults)
            except Violation as exc:
                result['ok'] = False
                result['violation'] = exc.as_dict()
            except HarnessError:
                raise
            except Exception as exc:  # pylint: disable=broad-except
                if classify_exception(exc) == 'library':
                    result['ok'] = False
                    result['violation'] = _lib_exception_to_violation(exc, world.step_index)
                else:
                    raise
    except Exception as exc:  # pylint: disable=broad-except
        result['ok'] = False
        result['error'] = f'{exc!r}\n{short_tb(exc, 10)}'
    finally:
        if world is not None:
            world.close_all()
        result.update(
            {
                'digest': SIM.digest.hexdigest(),
                'steps': SIM.step,
                'evals': max(evals, 1),
                'behaviours': sorted(behaviours),
                'nontrivial': bool(behaviours),
                'ops': {'victim_' + victim['op']: 1},
                'faults': faults,
                'probes': probes,
                'kinds': dict(SIM.kinds),
            }
        )
        SIM.reset(None)
        drop_scratch(root)
    return result


def pick_positions(case, total, rng, nsample, kinds=None):
    pinned = case.get('positions')
    if isinstance(pinned, list):
        return [p for p in pinned if p < total]
    if pinned == 'all' or total <= nsample:
        return list(range(total))
    picks = {0, total - 1}
    if kinds:
        # stratified: at least one boundary per distinct kind of call that follows it
        by_kind = {}
        for pos, kind in enumerate(kinds):
            by_kind.setdefault(kind.split(':')[0] if kind.startswith('open') else kind, []).append(pos)
        for kind in sorted(by_kind):
            occ = by_kind[kind]
            chosen = occ if len(occ) <= 3 else [rng.choice(occ)]
            for pos in chosen:
                picks.add(pos)
                if pos + 1 < total:
                    picks.add(pos + 1)  # the state right *after* a rare call (a commit, a rename, ...) as well
    while len(picks) < nsample:
        picks.add(rng.randrange(total))
    return sorted(picks)


def run_recorded(lib, world, side, case, pre, maybe, rng, probes, faults):
    """C05 / C06: one execution of the victim, an image at every mutating boundary."""
    victim = case['victim']
    powerloss = case['sub'] == 'powerloss'
    imgdir = os.path.join(world.root, 'img')
    only = None
    if victim.get('mass'):
        # thousands of boundaries: a preview execution on a copy enumerates them, the sample is chosen beforehand and
        # only those images are taken (both executions start from the same simulator state on a fresh handle)
        world.close_all()
        copy = os.path.join(world.root, 'preview', 'c')
        os.makedirs(os.path.dirname(copy))
        shutil.copytree(side.folder, copy)
        preview = World(world.root, case, None)
        preview.adopt_side('c', copy, case['config'], side.model)
        if world.sides.get('b') is not None:
            preview.adopt_side('b', world.sides['b'].folder, case['config_b'], world.sides['b'].model)
        SIM.fs_rng = random.Random(case['seed'] + 4242)
        SIM.uuid_counter = 1_000_000
        counter = Counter()
        SIM.hooks.append(counter)
        try:
            preview.step(victim)
        finally:
            SIM.hooks.remove(counter)
            preview.close_all()
            shutil.rmtree(os.path.join(world.root, 'preview'), ignore_errors=True)
        kinds = [kind for kind, _, mut in counter.events if mut] + ['end']
        only = set(pick_positions(case, len(kinds), rng, max(case.get('nsample', 16), 24), kinds=kinds))
        side.handles = [lib.Container(side.folder)]
        SIM.fs_rng = random.Random(case['seed'] + 4242)
        SIM.uuid_counter = 1_000_000
    recorder = Recorder(side.folder, imgdir, powerloss, only=only)
    if powerloss:
        SIM.ledger = init_ledger(side.folder)
    SIM.hooks.append(recorder)
    # C06 variant: the n-th fsync of the victim fails (EIO). "Visible only after its bytes have been forced to stable
    # storage": if forcing fails, nothing may be published or removed on top of those bytes either.
    sync_fault = {'n': case.get('fsync_fault'), 'seen': 0, 'fired': None}
    io_fault = case.get('io_fault') if not case.get('fsync_fault') else None
    if io_fault:
        sync_fault['n'] = io_fault[2]

    def fail_fsync(event):
        if sync_fault['n'] is None:
            return None
        if io_fault:
            if not event[2].startswith(io_fault[0]) or event[2] in ('sql:BEGIN', 'sql:ROLLBACK', 'sql:SELECT', 'sql:PRAGMA'):
                return None
        elif event[2] not in ('os.fsync', 'fcntl'):
            return None
        sync_fault['seen'] += 1
        if sync_fault['seen'] == sync_fault['n'] and not sync_fault['fired']:
            sync_fault['fired'] = event[3]
            if io_fault:
                injector = Injector(0, io_fault[1])
                return injector(event)  # raises the exception of that fault kind
            raise OSError(errno.EIO, f'Input/output error (injected at fsync of {event[3]})')
        return None

    SIM.hooks.append(fail_fsync)
    raised = None
    try:
        world.step_index = len(case['ops'])
        world.step(victim)
    except Violation:
        raise
    except Exception as exc:  # pylint: disable=broad-except
        if classify_exception(exc) != 'library':
            raise
        raised = exc
    finally:
        SIM.hooks.remove(fail_fsync)
        if not (sync_fault['fired'] and raised is not None and case.get('retry_same_handle', True)):
            SIM.hooks.remove(recorder)
    if sync_fault['fired']:
        fname = f'powerloss+{io_fault[1]}@{io_fault[0]}' if io_fault else 'fsync-eio'
        faults[fname] = faults.get(fname, 0) + 1
        probes['fsync_fault_raised' if raised is not None else 'fsync_fault_swallowed'] = 1
        if raised is not None and case.get('retry_same_handle', True):
            # the application retries the call on the *same* handle once the fault has cleared (the handle may still
            # hold what the failed attempt left in its session); images keep being taken during the retry
            try:
                world.step(victim)
                probes['retry_same_handle_completed'] = 1
            except Violation:
                pass  # return values of a retried operation are not judged here, only the power-loss images are
            except Exception as exc:  # pylint: disable=broad-except
                if classify_exception(exc) != 'library':
                    raise
                probes['retry_same_handle_raised'] = 1
            finally:
                SIM.hooks.remove(recorder)
    if raised is not None and not sync_fault['fired']:
        # a fault-free victim must not raise
        raise Violation('unexpected-exception:' + type(raised).__name__, f'victim {victim["op"]}: {raised!r}\n{short_tb(raised)}'[:2000])
    # final image: after the victim returned (library buffers are flushed by then, but maybe not synced)
    recorder.take('end', '')
    total = len(recorder.images)
    probes['boundaries'] += total
    picks = set(pick_positions(case, total, rng, case.get("nsample", 16), kinds=[img[1] for img in recorder.images]))
    behaviours = set()
    evals = 0
    kind_name = 'powerloss' if powerloss else 'crash'
    with SIM.quiet():
        for i, (k, kind, rel, path) in enumerate(recorder.images):
            if only is not None or i in picks:
                label = f'{kind_name}@{k} before {kind} {rel} (victim {victim["op"]})'
                state = image_oracle(lib, path, pre, maybe, victim['op'], label)
                evals += 1
                faults[kind_name] = faults.get(kind_name, 0) + 1
                if 0 < i < total - 1:
                    behaviours.add(f"{victim['op']}|{kind.split(':')[0] if kind.startswith('open') else kind}|{state_digest(state)}")
            shutil.rmtree(path, ignore_errors=True)
    SIM.ledger = None
    # and the completed operation itself left a state equal to the model
    if raised is None and not case.get('pending_add'):
        final_state_check(world, side, f'after victim {victim["op"]}')
    return evals, behaviours


def run_faulted(lib, world, side, case, pre, maybe, rng, probes, faults):  # pylint: disable=too-many-locals,too-many-statements,too-many-branches
    """C17: one injected fault per execution."""
    victim = case['victim']
    model_pre = dict(side.model)
    world.close_all()
    snap = os.path.join(world.root, 'pre')
    shutil.copytree(side.folder, snap)
    bside = world.sides.get('b')

    def fresh_world(tag):
        folder = os.path.join(world.root, tag, 'c')
        os.makedirs(os.path.dirname(folder))
        shutil.copytree(snap, folder)
        wld = World(world.root, case, None)
        wld.adopt_side('c', folder, case['config'], model_pre)
        if bside is not None:
            wld.adopt_side('b', bside.folder, case['config_b'], bside.model)
        wld.step_index = len(case['ops'])
        # every execution of the victim starts from the same simulator state (listing order, uuid stream),
        # so that the k-th seam call is the same call in the fault-free pass and in every faulted run
        SIM.fs_rng = random.Random(case['seed'] + 4242)
        SIM.uuid_counter = 1_000_000
        return wld

    # pass 0: count and classify the seam calls of a fault-free execution
    counter = Counter()
    wld = fresh_world('f0')
    SIM.hooks.append(counter)
    try:
        wld.step(victim)
    finally:
        SIM.hooks.remove(counter)
    model_after = dict(wld.sides['c'].model)
    final_state_check(wld, wld.sides['c'], f'fault-free victim {victim["op"]}')
    wld.close_all()
    shutil.rmtree(os.path.join(world.root, 'f0'), ignore_errors=True)

    candidates = []
    for idx, (kind, rel, mut) in enumerate(counter.events):
        for fault in fault_kinds_for(kind, mut):
            candidates.append((idx, fault, kind))
    probes['boundaries'] += len(candidates)
    pinned = case.get('positions')
    if isinstance(pinned, list):
        chosen = [c for c in candidates if [c[0], c[1]] in pinned]
    elif pinned == 'all' or len(candidates) <= case.get('nsample', 24):
        chosen = candidates
    else:
        # stratified sample: every (call kind, fault kind) pair that occurs gets at least one position (a random one of
        # its occurrences), so rare calls (truncate, link, replace, rename ...) are never drowned by reads and writes
        by_pair = {}
        for cand in candidates:
            kshort = cand[2].split(':')[0] if cand[2].startswith('open') else cand[2]
            by_pair.setdefault((kshort, cand[1]), []).append(cand)
        picked = set()
        for pair in sorted(by_pair):
            occ = by_pair[pair]
            picked.update(occ if len(occ) <= 3 else [rng.choice(occ)])  # rare calls: every occurrence
        rest = [c for c in candidates if c not in picked]
        extra = max(0, case.get('nsample', 24) - len(picked))
        picked.update(rng.sample(rest, min(extra, len(rest))))
        chosen = sorted(picked)
    behaviours = set()
    evals = 0
    repack = victim['op'] in ('repack', 'repack_pack')
    for num, (idx, fault, kind) in enumerate(chosen):
        tag = f'f{num + 1}'
        wld = fresh_world(tag)
        fside = wld.sides['c']
        injector = Injector(idx, fault)
        SIM.hooks.append(injector)
        raised = None
        label = f'{fault}@{idx} at {kind} (victim {victim["op"]})'
        try:
            try:
                wld.step(victim)
            except Violation as exc:
                raise Violation(exc.klass, f'{label}: {exc.detail}') from None
            except HarnessError:
                raise
            except Exception as exc:  # pylint: disable=broad-except
                raised = exc
        finally:
            SIM.hooks.remove(injector)
        if injector.fired is None:
            # the execution diverged before reaching the call (cannot happen for a deterministic victim)
            raise HarnessError(f'{label}: fault position not reached ({injector.count} calls)')
        evals += 1
        faults[fault] = faults.get(fault, 0) + 1
        kshort = kind.split(':')[0] if kind.startswith('open') else kind
        if raised is None:
            probes['victim_completed'] += 1
            probes['fault_swallowed'] += 1
            # (1) the call returned: the state must be the model-after
            try:
                final_state_check(wld, fside, f'{label}: victim returned normally')
            except Violation as exc:
                raise Violation('fault-completed-wrong-state:' + exc.klass, exc.detail) from None
            behaviours.add(f"{victim['op']}|{kshort}|{fault}|completed")
            wld.close_all()
        else:
            probes['victim_raised'] += 1
            # (2) close the old handle, then the image oracle on the folder
            wld.close_all()
            with SIM.quiet():
                try:
                    state = image_oracle(lib, fside.folder, pre, maybe, victim['op'], label + f' raised {type(raised).__name__}')
                except Violation as exc:
                    raise Violation('fault-' + exc.klass, exc.detail) from None
            behaviours.add(f"{victim['op']}|{kshort}|{fault}|raised:{type(raised).__name__}|{state_digest(state)}")
            # (3) fault cleared: remove stale locks, fresh handle re-runs the victim
            if repack and raised is not None:
                # An interrupted repack may need manual repair, so the re-run is allowed to fail loudly - but trying it
                # must not make anything worse: the same on-disk contract holds after the attempt.
                packdir = os.path.join(fside.folder, 'packs')
                for name in os.listdir(packdir):
                    if name.endswith('.lock'):
                        os.remove(os.path.join(packdir, name))
                retry = lib.Container(fside.folder)
                try:
                    from disk_objectstore.utils import CompressMode  # pylint: disable=import-outside-toplevel

                    retry.repack(compress_mode=CompressMode(victim.get('mode', 'keep')))
                    probes['repack_retry_completed'] = probes.get('repack_retry_completed', 0) + 1
                except Exception:  # pylint: disable=broad-except
                    probes['repack_retry_refused'] = probes.get('repack_retry_refused', 0) + 1
                finally:
                    retry.close()
                with SIM.quiet():
                    try:
                        image_oracle(lib, fside.folder, pre, maybe, victim['op'], label + ': after re-running repack on the interrupted state')
                    except Violation as exc:
                        raise Violation('rerun-' + exc.klass, exc.detail) from None
            if not (repack and raised is not None):
                packdir = os.path.join(fside.folder, 'packs')
                for name in os.listdir(packdir):
                    if name.endswith('.lock'):
                        os.remove(os.path.join(packdir, name))
                        probes['stale_locks_removed'] += 1
                rerun = World(world.root, case, None)
                # what is there now: pre objects, plus whatever of `maybe` became visible
                with SIM.quiet():
                    _, observed = rawread.verify(fside.folder, model=None)
                now_model = dict(pre)
                for key, data in maybe.items():
                    if key in observed:
                        now_model[key] = data
                rerun.adopt_side('c', fside.folder, case['config'], now_model)
                if bside is not None:
                    rerun.adopt_side('b', bside.folder, case['config_b'], bside.model)
                rerun.relaxed_returns = True
                rerun.step_index = len(case['ops'])
                try:
                    rerun.step(victim)
                except Violation as exc:
                    raise Violation('rerun-' + exc.klass, f'{label}: re-run after the fault cleared: {exc.detail}') from None
                except HarnessError:
                    raise
                except Exception as exc:  # pylint: disable=broad-except
                    if classify_exception(exc) != 'library':
                        raise
                    raise Violation(
                        'rerun-raised:' + type(exc).__name__,
                        f'{label}: re-run on a fresh handle after the fault cleared raised {exc!r}\n{short_tb(exc)}'[:2000],
                    ) from None
                rside = rerun.sides['c']
                if set(rside.model) != set(model_after):
                    raise HarnessError(f'{label}: model after re-run differs from fault-free model')
                try:
                    final_state_check(rerun, rside, f'{label}: after re-run')
                except Violation as exc:
                    raise Violation('rerun-' + exc.klass, exc.detail) from None
                probes['rerun_ok'] += 1
                rerun.close_all()
        shutil.rmtree(os.path.join(world.root, tag), ignore_errors=True)
    return evals, behaviours


def run_restart(lib, world, side, case, pre, maybe, rng, probes, faults):  # pylint: disable=too-many-locals
    """C13 across a crash: the process is killed inside the victim, a new process opens the folder and goes on with
    ordinary (repack-free) operations. The pack layout rules must keep holding in that continued history: referenced
    bytes never change, ids stay consecutive, every pack but the highest has reached the target. A stale lock left by
    the killed process may make the first pack-writing call fail loudly once (it is released on the way out)."""
    from .oracles import Oracle  # pylint: disable=import-outside-toplevel

    victim = case['victim']
    recorder = Recorder(side.folder, os.path.join(world.root, 'img'), False)
    SIM.hooks.append(recorder)
    try:
        world.step_index = len(case['ops'])
        world.step(victim)
    finally:
        SIM.hooks.remove(recorder)
    recorder.take('end', '')
    total = len(recorder.images)
    probes['boundaries'] += total
    picks = set(pick_positions(dict(case, positions='sample'), total, rng, case.get('nrestart', 3), kinds=[img[1] for img in recorder.images]))
    if case.get('positions') and isinstance(case['positions'], list):
        picks = set(case['positions'])
    behaviours = set()
    evals = 0
    bside = world.sides.get('b')
    for k, kind, rel, path in recorder.images:
        if k not in picks:
            shutil.rmtree(path, ignore_errors=True)
            continue
        label = f'restart after crash@{k} before {kind} {rel} (victim {victim["op"]})'
        with SIM.quiet():
            image_oracle(lib, path, pre, maybe, victim['op'], label)
            _, observed = rawread.verify(path, model=None)
        model = dict(pre)
        for key, data in maybe.items():
            if key in observed:
                model[key] = data
        oracle = Oracle(['monotone', 'raw', 'views'], seed=case['seed'] + k, light_views=True)
        cont = World(world.root, case, oracle)
        cont.adopt_side('c', path, case['config'], model)
        if bside is not None:
            cont.adopt_side('b', bside.folder, case['config_b'], bside.model)
        stale = [n for n in os.listdir(os.path.join(path, 'packs')) if n.endswith('.lock')]
        probes['restart_images_with_stale_lock'] = probes.get('restart_images_with_stale_lock', 0) + bool(stale)
        try:
            for num, op in enumerate(case['followups']):
                cont.step_index = len(case['ops']) + 1 + num
                try:
                    cont.step(op)
                except FileExistsError:
                    # the lock of the killed process: the failed attempt releases it, the caller tries again
                    probes['restart_lock_refusals'] = probes.get('restart_lock_refusals', 0) + 1
                    cont.sides['c'].handles[0].close()
                    cont.sides['c'].handles[0] = lib.Container(path)
                    cont.step(op)
        except Violation as exc:
            raise Violation('restart:' + exc.klass, f'{label}, then {[o["op"] for o in case["followups"]]}: {exc.detail}') from None
        finally:
            cont.close_all()
        evals += 1
        faults['crash'] = faults.get('crash', 0) + 1
        behaviours.add(f"restart|{victim['op']}|{kind.split(':')[0] if kind.startswith('open') else kind}|{bool(stale)}|{case['seed']}")
        shutil.rmtree(path, ignore_errors=True)
    return evals, behaviours


def run_faultcont(lib, world, side, case, pre, maybe, rng, probes, faults):  # pylint: disable=too-many-locals,too-many-statements,too-many-branches
    """C13 across an I/O error: one seam call of a repack-free victim fails, the caller catches the exception and goes on
    using the *same* handle for ordinary repack-free operations (the handle's cached pack id, pack sizes and session
    survive the failure). The pack layout rules must keep holding in that continued history. Operations of the
    continuation may themselves fail loudly (then the continuation stops); what is checked is only what is on disk:
    before/after every step - also a failed one - referenced bytes unchanged, ids consecutive, only the highest pack
    below the target, full packs never written again."""
    from .oracles import Oracle, check_packs_monotone, pack_bytes  # pylint: disable=import-outside-toplevel

    del lib
    victim = case['victim']
    model_pre = dict(side.model)
    world.close_all()
    snap = os.path.join(world.root, 'pre')
    shutil.copytree(side.folder, snap)
    bside = world.sides.get('b')

    def fresh_world(tag):
        folder = os.path.join(world.root, tag, 'c')
        os.makedirs(os.path.dirname(folder))
        shutil.copytree(snap, folder)
        wld = World(world.root, case, None)
        wld.adopt_side('c', folder, case['config'], model_pre)
        if bside is not None:
            wld.adopt_side('b', bside.folder, case['config_b'], bside.model)
        wld.step_index = len(case['ops'])
        SIM.fs_rng = random.Random(case['seed'] + 4242)
        SIM.uuid_counter = 1_000_000
        return wld

    counter = Counter()
    wld = fresh_world('f0')
    SIM.hooks.append(counter)
    try:
        wld.step(victim)
    finally:
        SIM.hooks.remove(counter)
    wld.close_all()
    shutil.rmtree(os.path.join(world.root, 'f0'), ignore_errors=True)
    candidates = []
    for idx, (kind, rel, mut) in enumerate(counter.events):
        for fault in fault_kinds_for(kind, mut):
            if fault != 'close-lost':  # (data that vanishes after a successful close is storage loss, not an error return)
                candidates.append((idx, fault, kind))
    probes['boundaries'] += len(candidates)
    pinned = case.get('positions')
    if isinstance(pinned, list):
        chosen = [c for c in candidates if [c[0], c[1]] in pinned]
    else:
        by_pair = {}
        for cand in candidates:
            kshort = cand[2].split(':')[0] if cand[2].startswith('open') else cand[2]
            by_pair.setdefault((kshort, cand[1]), []).append(cand)
        pairs = sorted(by_pair)
        rng.shuffle(pairs)
        nsample = case.get('nsample', 8) * (5 if pinned == 'all' else 1)  # thorough: five positions per run instead of one per pair
        chosen = sorted({rng.choice(by_pair[pair]) for pair in (pairs * 5 if pinned == 'all' else pairs)[:nsample]})
    behaviours = set()
    evals = 0

    # Calls that carry pack data: if one of them fails, bytes the library believes written (it does its size arithmetic on
    # tell()) are not in the file, so "which pack is full" may legitimately be off from then on - C13 is stated for
    # histories, not for storage that loses writes. After such a fault only the append-only clauses are checked (what
    # is referenced never changes, nothing shrinks below a referenced byte); after a failing sync / metadata / SQL / open
    # call everything the library wrote is where it thinks it is, and the fill-order clauses are checked as well.
    data_calls = ('f.write', 'f.flush', 'f.close', 'f.truncate')

    def layout_step(wld, fside, op, label, fill_rules=True):
        """One operation on the same handle; the layout oracle runs whether it returns or raises."""
        with SIM.quiet():
            before = (rawread.read_state(fside.folder), pack_bytes(fside.folder))
        raised = None
        try:
            wld.step(op)
        except Violation as exc:
            raise Violation('faultcont:' + exc.klass, f'{label}: {exc.detail}') from None
        except HarnessError:
            raise
        except Exception as exc:  # pylint: disable=broad-except
            if classify_exception(exc) != 'library':
                raise
            raised = exc
        with SIM.quiet():
            after_state, after_bytes = rawread.read_state(fside.folder), pack_bytes(fside.folder)
            try:
                check_packs_monotone(wld, fside, before, after_state, after_bytes, fill_rules=fill_rules)
            except Violation as exc:
                how = f'raised {type(raised).__name__}' if raised is not None else 'returned'
                raise Violation('faultcont:' + exc.klass, f'{label} ({op["op"]} {how}): {exc.detail}') from None
        return raised

    for num, (idx, fault, kind) in enumerate(chosen):
        tag = f'f{num + 1}'
        wld = fresh_world(tag)
        fside = wld.sides['c']
        injector = Injector(idx, fault)
        SIM.hooks.append(injector)
        label = f'{fault}@{idx} at {kind} (victim {victim["op"]}), same handle continues'
        fill_rules = kind not in data_calls
        try:
            raised = layout_step(wld, fside, victim, label, fill_rules)
        finally:
            SIM.hooks.remove(injector)
        if injector.fired is None:
            raise HarnessError(f'{label}: fault position not reached ({injector.count} calls)')
        evals += 1
        faults[fault] = faults.get(fault, 0) + 1
        probes['victim_raised' if raised is not None else 'victim_completed'] += 1
        # the model is only needed to resolve symbolic arguments of the follow-up operations: what is there now
        with SIM.quiet():
            _, observed = rawread.verify(fside.folder, model=None)
        now_model = dict(pre)
        for key, data in maybe.items():
            if key in observed:
                now_model[key] = data
        fside.model = now_model
        done = 0
        for fnum, op in enumerate(case['followups']):
            wld.step_index = len(case['ops']) + 1 + fnum
            again = layout_step(wld, fside, op, label + f', then {[o["op"] for o in case["followups"][: fnum + 1]]}', fill_rules)
            if again is not None:
                probes['continuation_refused'] = probes.get('continuation_refused', 0) + 1
                break
            done += 1
        probes['continuation_steps'] = probes.get('continuation_steps', 0) + done
        kshort = kind.split(':')[0] if kind.startswith('open') else kind
        behaviours.add(f"faultcont|{victim['op']}|{kshort}|{fault}|{type(raised).__name__ if raised else 'completed'}|{done}|{case['seed']}")
        wld.close_all()
        shutil.rmtree(os.path.join(world.root, tag), ignore_errors=True)
    return evals, behaviours


def shrink(case, budget_s=60.0):
    """ddmin over the pre-state history with positions re-enumerated, then pin the earliest failing position."""
    from . import shrink as shr  # pylint: disable=import-outside-toplevel

    wide = dict(case, positions='all')
    small, res = shr.shrink_case(wide, execute, list_keys=('ops',), budget_s=budget_s * 0.8, simplify=None)
    if not res.get('violation'):
        return case, execute(case)
    # pin the position named in the violation detail, if it can be parsed
    import re  # pylint: disable=import-outside-toplevel

    detail = res['violation']['detail']
    match = re.search(r'(crash|powerloss)@(\d+)', detail)
    if match:
        pinned = dict(small, positions=[int(match.group(2))])
        res2 = execute(pinned)
        if shr.vclass(res2) == shr.vclass(res):
            return pinned, res2
    match = re.search(r'(eio|eperm|eexist|enospc|close-lost|sqlerr)@(\d+)', detail)
    if match:
        pinned = dict(small, positions=[[int(match.group(2)), match.group(1)]])
        res2 = execute(pinned)
        if shr.vclass(res2) == shr.vclass(res):
            return pinned, res2
    return small, res
