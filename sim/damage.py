"""Engine D (C12b): damage at rest - validate() must never be clean on a container whose damage is *effective*.

A small container is built by a short engine-A history; then single damages are applied one at a time (bit flips and
truncations of pack / loose files, a byte appended to a loose file, perturbations of one index field of one row). Ground
truth: a fresh handle reads every model key through get_object_stream_and_meta; the damage is effective iff some read
raises, returns other bytes, or reports a size different from the content length. Oracle: effective => validate() raises
or reports an issue. Ineffective damage (unreferenced bytes, a loose copy shadowed by a packed one, ...) makes no claim.
"""

from __future__ import annotations

import hashlib
import os
import random
import shutil
import sqlite3

from . import gen, rawread
from .core import SIM, HarnessError, install
from .hist import classify_exception, drop_scratch, new_scratch, short_tb
from .world import DEFAULT_KNOBS, Knobs, Violation, World, make_config


BOUNDARIES = [950, 1000, 1024, 2000]


def generate_coverage(prop, seed, tier):
    """Large packs: does validate() look at every referenced byte? (see run_coverage)"""
    rng = random.Random(seed)
    boundary = rng.choice(BOUNDARIES)
    return {
        'engine': 'D',
        'prop': prop,
        'seed': seed,
        'tier': tier,
        'sub': 'coverage',
        'config': dict(make_config(rng), pack_size_target=4 * 1024**3),
        'knobs': dict(DEFAULT_KNOBS),
        'pool': [['empty', 0, 0]],
        'ops': [],
        # objects before the special (empty / 1-byte) one: around a round internal batch size
        'before': boundary + rng.choice([-2, -1, -1, 0, 1]),
        'special': rng.choice(['empty', 'empty', 'one', 'none']),
        'after': rng.randint(1, 6),
        'compress_second_batch': rng.random() < 0.5,
        'loose_too': rng.random() < 0.3,
    }


def generate(prop, seed, tier='quick'):
    rng = random.Random(seed)
    if rng.random() < (0.12 if tier == 'quick' else 0.2):
        return generate_coverage(prop, seed, tier)
    kinds = ['rand', 'text', 'zeros', 'mixed']
    tiny = rng.random() < 0.3
    pool = [['empty', 0, 0], ['zeros', 1, 97]]
    for _ in range(8):
        length = rng.choice([2, 5, 17, 60] if tiny else [3, 40, 100, 700, 2000, 4000])
        pool.append([rng.choice(kinds), length, rng.randrange(1 << 30)])
    config = make_config(rng)
    opts = gen.make_opts(rng, len(pool))
    weights = {'add_loose': 5, 'add_pack': 5, 'pack_loose': 3, 'clean': 1, 'loosen': 1, 'repack': 0.5, 'delete': 0.5}
    ops = gen.gen_history(rng, len(pool), rng.randint(2, 8), weights=weights, opts=opts, with_b=False, always=('add_pack', 'add_loose'))
    return {
        'engine': 'D',
        'prop': prop,
        'seed': seed,
        'tier': tier,
        'config': config,
        'knobs': dict(DEFAULT_KNOBS),
        'pool': pool,
        'ops': ops,
        'ndamage': 40 if tier == 'quick' else 1500,
        'exhaustive_below': 0 if tier == 'quick' else 700,
        'damages': None,
    }


def list_damages(folder, state, rng, ndamage, exhaustive_below):
    """Candidate damages as JSON-able lists."""
    files = []
    for name in sorted(state.pack_files):
        files.append(('pack', os.path.join('packs', name), state.pack_files[name]))
    for key in sorted(state.loose):
        path = os.path.relpath(state.loose[key], folder)
        files.append(('loose', path, os.path.getsize(state.loose[key])))
    total = sum(size for _, _, size in files)
    damages = []
    if total and total <= exhaustive_below:
        for kind, path, size in files:
            for pos in range(size):
                for bit in range(8):
                    damages.append(['bitflip', path, pos, bit])
    else:
        weights = [max(size, 1) for _, _, size in files]
        for _ in range(ndamage // 2 if files else 0):
            kind, path, size = rng.choices(files, weights)[0]
            if size:
                damages.append(['bitflip', path, rng.randrange(size), rng.randrange(8)])
    for kind, path, size in files:
        lengths = list(range(0, size, 7)) if exhaustive_below else [rng.randrange(size + 1) for _ in range(2)]
        for length in lengths:
            if length < size:
                damages.append(['truncate', path, length])
        if kind == 'loose':
            damages.append(['append', path, rng.randrange(256)])
    pack_ids = sorted({r['pack_id'] for r in state.rows})
    for row in state.rows:
        end = state.pack_files.get(str(row['pack_id']), 0)
        other = [p for p in pack_ids if p != row['pack_id']]
        for field, value in (
            ('offset', row['offset'] + 1),
            ('offset', row['offset'] - 1),
            ('offset', 0),
            ('offset', end),
            ('length', row['length'] + 1),
            ('length', row['length'] - 1),
            ('length', 0),
            ('length', row['length'] + 50),
            ('size', row['size'] + 1),
            ('size', row['size'] - 1),
            ('size', 0),
            ('compressed', 0 if row['compressed'] else 1),
            ('pack_id', other[0] if other else row['pack_id'] + 7),
            ('pack_id', row['pack_id'] + 1000),
        ):
            if value != row[field] and (value >= 0 or field == 'offset'):
                damages.append(['index', row['id'], field, value])
    if not exhaustive_below and len(damages) > ndamage:
        damages = rng.sample(damages, ndamage)
    elif len(damages) > ndamage:
        keep = [d for d in damages if d[0] != 'bitflip']
        flips = [d for d in damages if d[0] == 'bitflip']
        damages = flips[: max(0, ndamage - len(keep))] + keep if total > exhaustive_below else damages
    return damages


def apply_damage(folder, damage):
    kind = damage[0]
    if kind == 'bitflip':
        _, path, pos, bit = damage
        full = os.path.join(folder, path)
        with open(full, 'r+b') as handle:
            handle.seek(pos)
            byte = handle.read(1)
            handle.seek(pos)
            handle.write(bytes([byte[0] ^ (1 << bit)]))
    elif kind == 'truncate':
        _, path, length = damage
        with open(os.path.join(folder, path), 'r+b') as handle:
            handle.truncate(length)
    elif kind == 'append':
        _, path, value = damage
        with open(os.path.join(folder, path), 'ab') as handle:
            handle.write(bytes([value]))
    elif kind == 'index':
        _, rowid, field, value = damage
        conn = sqlite3.connect(os.path.join(folder, 'packs.idx'))
        try:
            conn.execute(f'UPDATE db_object SET "{field}" = ? WHERE id = ?', (value, rowid))
            conn.commit()
        finally:
            conn.close()
    else:
        raise HarnessError(f'unknown damage {damage}')


def ground_truth(lib, folder, model):
    """Return a description of why the damage is effective, or None: some object is unreadable, reads back as different
    bytes or disagrees with its recorded size - for a client that reads it through, or for one that seeks in it (the
    library serves seeking readers of a compressed packed object from a loose copy, if there is one)."""
    why = _ground_truth_linear(lib, folder, model)
    if why is not None:
        return why
    # the seeking reader re-creates loose copies: it works on a copy of the damaged folder, validate() sees the original
    scratch = folder.rstrip('/') + '.seek'
    if os.path.exists(scratch):
        shutil.rmtree(scratch)
    shutil.copytree(folder, scratch)
    try:
        cont = lib.Container(scratch)
        try:
            for key in sorted(model):
                data = model[key]
                try:
                    with cont.get_object_stream(key) as stream:
                        head = stream.read(2)
                        stream.seek(0, 2)  # (the value it returns is not part of the ground truth: only bytes read back are)
                        stream.seek(0)
                        got = stream.read()
                except Exception as exc:  # pylint: disable=broad-except
                    return f'key={key[:12]} unreadable for a seeking reader ({type(exc).__name__})'
                if head != data[:2] or got != data:
                    return f'key={key[:12]} reads different bytes for a seeking reader ({len(got)} bytes after seek(0,2); seek(0), stored {len(data)})'
        finally:
            cont.close()
    finally:
        shutil.rmtree(scratch, ignore_errors=True)
    return None


def _ground_truth_linear(lib, folder, model):
    cont = lib.Container(folder)
    try:
        for key in sorted(model):
            data = model[key]
            try:
                with cont.get_object_stream_and_meta(key) as (stream, meta):
                    got = stream.read()
                    size = meta.size
            except Exception as exc:  # pylint: disable=broad-except
                return f'key={key[:12]} unreadable ({type(exc).__name__})'
            if got != data:
                return f'key={key[:12]} reads different bytes'
            if size != len(data):
                return f'key={key[:12]} reports size {size} != {len(data)}'
    finally:
        cont.close()
    return None


_VALIDATE_CALLS = [0]


def validate_outcome(lib, folder):
    cont = lib.Container(folder)
    _VALIDATE_CALLS[0] += 1
    try:
        try:
            # every fourth call passes a progress callback (validation then also counts the rows of every pack)
            res = cont.validate(callback=(lambda action, value: None) if _VALIDATE_CALLS[0] % 4 == 0 else None)
        except Exception as exc:  # pylint: disable=broad-except
            return 'raised:' + type(exc).__name__
        return 'clean' if res.is_valid() else 'issues'
    finally:
        cont.close()


def uncovered_rows(state, trace, folder):
    """Rows (with length > 0) whose byte range validate() did not read completely: (row, first unread offset)."""
    covered = {}
    for rel, pos, length in trace:
        covered.setdefault(os.path.basename(rel) if '/packs/' in '/' + rel else rel, []).append((pos, pos + length))
    out = []
    for name in covered:
        covered[name].sort()
    for row in state.rows:
        if row['length'] == 0:
            continue
        pos = row['offset']
        end = row['offset'] + row['length']
        for start, stop in covered.get(str(row['pack_id']), []):
            if start <= pos < stop:
                pos = stop
            if pos >= end:
                break
        if pos < end:
            out.append((row, pos))
    del folder
    return out


def run_coverage(lib, world, case, counts, faults, behaviours):
    """One validate() run under read tracing on a pack with ~1000-2000 rows. A referenced byte that validate() never
    reads cannot be protected by it: flip it (and perturb that row's size) and require the usual oracle."""
    side = world.create_side('c', case['config'])
    handle = side.handles[0]
    datas = [b'obj-%d' % i for i in range(case['before'])]
    if case['special'] == 'empty':
        datas.append(b'')
    elif case['special'] == 'one':
        datas.append(b'x')
    datas += [b'tail-%d' % i for i in range(case['after'])]
    with SIM.quiet():
        keys = handle.add_objects_to_pack(datas, compress=False, do_fsync=False)
        side.model.update(dict(zip(keys, datas)))
        more = [b'second-%d' % i for i in range(7)]
        keys = handle.add_objects_to_pack(more, compress=case['compress_second_batch'], do_fsync=False)
        side.model.update(dict(zip(keys, more)))
        if case['loose_too']:
            for i in range(3):
                data = b'loose-%d' % i
                side.model[handle.add_object(data)] = data
    world.close_all()
    model = dict(side.model)
    fresh = lib.Container(side.folder)
    SIM.io_trace = []
    try:
        res = fresh.validate()
    finally:
        trace, SIM.io_trace = SIM.io_trace, None
        fresh.close()
    if not res.is_valid():
        raise Violation('validate-not-clean', 'undamaged large container does not validate')
    evals = 1
    with SIM.quiet():
        state = rawread.read_state(side.folder)
        missing = uncovered_rows(state, trace, side.folder)
        counts['rows_checked_for_read_coverage'] = counts.get('rows_checked_for_read_coverage', 0) + len(state.rows)
        pristine = os.path.join(world.root, 'pristine')
        shutil.copytree(side.folder, pristine)
        work = os.path.join(world.root, 'work')
        for row, pos in missing[:3]:
            for damage in (['bitflip', os.path.join('packs', str(row['pack_id'])), pos, 0], ['index', row['id'], 'size', row['size'] + 1]):
                if os.path.exists(work):
                    shutil.rmtree(work)
                shutil.copytree(pristine, work)
                apply_damage(work, damage)
                evals += 1
                faults[damage[0]] = faults.get(damage[0], 0) + 1
                why = ground_truth(lib, work, model)
                outcome = validate_outcome(lib, work)
                if why is not None:
                    counts['effective'] += 1
                    if outcome == 'clean':
                        raise Violation(
                            'validate-clean-on-damage',
                            f'damage {damage}: {why}, but validate() reports no issue (validate() never reads the bytes of row '
                            f"{row['id']} at offset {row['offset']} of a pack with {len(state.rows)} rows)",
                        )
    behaviours.add(f"coverage|{case['before']}|{case['special']}|{len(missing)}")
    return evals


def execute(case):  # pylint: disable=too-many-locals,too-many-statements
    lib = install()
    seed = case['seed']
    root = new_scratch()
    SIM.reset(root, seed=seed, fs_rng=random.Random(seed + 17))
    result = {'ok': True, 'violation': None, 'error': None}
    world = None
    behaviours = set()
    counts = {'effective': 0, 'ineffective': 0}
    faults = {}
    evals = 0
    try:
        with Knobs(case.get('knobs')):
            world = World(root, case, None)
            try:
                if case.get('sub') == 'coverage':
                    evals = run_coverage(lib, world, case, counts, faults, behaviours)
                    raise StopIteration
                side = world.create_side('c', case['config'])
                world.run(case['ops'])
                world.close_all()
                model = dict(side.model)
                with SIM.quiet():
                    if validate_outcome(lib, side.folder) != 'clean':
                        raise Violation('validate-not-clean', 'undamaged container does not validate')
                    pristine = os.path.join(root, 'pristine')
                    shutil.copytree(side.folder, pristine)
                    state = rawread.read_state(pristine)
                    rng = random.Random(seed ^ 0xDA)
                    damages = case.get('damages') or list_damages(pristine, state, rng, case['ndamage'], case.get('exhaustive_below', 0))
                    work = os.path.join(root, 'work')
                    for damage in damages:
                        if os.path.exists(work):
                            shutil.rmtree(work)
                        shutil.copytree(pristine, work)
                        apply_damage(work, damage)
                        evals += 1
                        faults[damage[0]] = faults.get(damage[0], 0) + 1
                        why = ground_truth(lib, work, model)
                        outcome = validate_outcome(lib, work)
                        if why is not None:
                            counts['effective'] += 1
                            if outcome == 'clean':
                                raise Violation('validate-clean-on-damage', f'damage {damage}: {why}, but validate() reports no issue')
                            behaviours.add(f"{damage[0]}|{damage[2] if damage[0] == 'index' else ''}|{outcome}")
                        else:
                            counts['ineffective'] += 1
            except StopIteration:
                pass
            except Violation as exc:
                result['ok'] = False
                result['violation'] = exc.as_dict()
            except HarnessError:
                raise
            except Exception as exc:  # pylint: disable=broad-except
                if classify_exception(exc) == 'library':
                    result['ok'] = False
                    result['violation'] = {'class': 'unexpected-exception:' + type(exc).__name__, 'detail': f'{exc!r}\n{short_tb(exc)}'[:2000], 'step': world.step_index}
                else:
                    raise
    except Exception as exc:  # pylint: disable=broad-except
        result['ok'] = False
        result['error'] = f'{exc!r}\n{short_tb(exc, 10)}'
    finally:
        if world is not None:
            world.close_all()
        sig = hashlib.sha1(SIM.digest.digest()).hexdigest()[:8]
        result.update(
            {
                'digest': SIM.digest.hexdigest(),
                'steps': SIM.step,
                'evals': max(evals, 1),
                'behaviours': sorted(f'{b}|{sig}' for b in behaviours),
                'nontrivial': bool(behaviours),
                'ops': world.stats['ops'] if world else {},
                'faults': faults,
                'probes': {'damage_effective': counts['effective'], 'damage_ineffective': counts['ineffective']},
                'kinds': dict(SIM.kinds),
            }
        )
        SIM.reset(None)
        drop_scratch(root)
    return result


def shrink(case, budget_s=60.0):
    """Pin the failing damage, then ddmin the history that built the container."""
    import re  # pylint: disable=import-outside-toplevel
    import json  # pylint: disable=import-outside-toplevel

    from . import shrink as shr  # pylint: disable=import-outside-toplevel

    base = execute(case)
    if base.get('violation') and base['violation']['class'] == 'validate-clean-on-damage':
        match = re.search(r'damage (\[.*?\]):', base['violation']['detail'])
        if match:
            pinned = dict(case, damages=[json.loads(match.group(1).replace("'", '"'))])
            if shr.vclass(execute(pinned)) == shr.vclass(base):
                case = pinned
    if case.get('damages') and case['damages'][0][0] == 'index':
        return case, execute(case)  # row ids depend on the history: do not reduce it
    return shr.shrink_case(case, execute, list_keys=('ops',), budget_s=budget_s, simplify=None)
