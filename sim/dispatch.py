"""Registry: property -> engines / case kinds, and the generic generate / execute / shrink entry points."""

from __future__ import annotations

import importlib

# engine tag -> module implementing generate(prop, seed, tier, **kw) / execute(case) [/ lift / shrink]
ENGINES = {
    'A': 'sim.hist',
    'B': 'sim.crash',
    'C': 'sim.conc',
    'D': 'sim.damage',
    'S': 'sim.streams',
    'H': 'sim.handles',
    'K': 'sim.bulk',
    'R': 'sim.resources',
    'U': 'sim.backup',
}

# property -> cycle of (engine tag, sub-kind); run i uses entry i mod len
PLAN = {
    'C01': [('A', None)],
    'C02': [('A', None)],
    'C03': [('A', None)],
    'C04': [('C', None)],
    'C05': [('B', 'crash')],
    'C06': [('B', 'powerloss')],
    'C07': [('S', None)],
    'C08': [('H', None)],
    'C09': [('A', None)],
    'C10': [('A', None)],
    'C11': [('A', None)],
    'C12': [('A', None), ('D', None)],
    'C13': [('A', None), ('A', None), ('B', 'restart'), ('B', 'faultcont')],
    'C14': [('A', None)],
    'C15': [('U', None)],
    'C16': [('A', None), ('K', None), ('A', None), ('K', None), ('A', None), ('K', 'helpers')],
    'C17': [('B', 'fault')],
    'C18': [('A', None), ('R', 'bulkread'), ('H', None), ('R', 'lazy'), ('A', None), ('R', 'chunked'), ('H', None)],
}


def engine_module(tag):
    return importlib.import_module(ENGINES[tag])


def run_seed(base_seed, index):
    return base_seed * 1_000_003 + index


def generate(prop, index, base_seed, tier):
    plan = PLAN[prop]
    tag, sub = plan[index % len(plan)]
    mod = engine_module(tag)
    seed = run_seed(base_seed, index)
    if sub is None:
        case = mod.generate(prop, seed, tier)
    else:
        case = mod.generate(prop, seed, tier, sub=sub)
    case['engine'] = tag
    case['prop'] = prop
    case['index'] = index
    return case


def execute(case):
    return engine_module(case['engine']).execute(case)


def lift(case, result):
    mod = engine_module(case['engine'])
    if hasattr(mod, 'lift'):
        return mod.lift(case, result)
    return case, result, None


def shrink(case, budget_s=60.0):
    mod = engine_module(case['engine'])
    if hasattr(mod, 'shrink'):
        return mod.shrink(case, budget_s)
    from . import shrink as shr  # pylint: disable=import-outside-toplevel

    return shr.shrink_case(case, mod.execute, list_keys=('ops',), budget_s=budget_s, simplify=shr.simplify_history)
