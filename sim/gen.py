"""Swarm-style generator of operation histories (DESIGN.md 2.4).

Each run first draws *which* operation kinds / parameter values are enabled at all, then the operations. All arguments
are symbolic (pool indices, "j-th model key modulo size"), so any sub-list of a program is still executable.
"""

from __future__ import annotations

COMPRESS_MODES = ['no', 'yes', 'keep', 'auto', True, False]
REPACK_MODES = ['keep', 'yes', 'no', 'auto']

BASE_WEIGHTS = {
    'add_loose': 6,
    'add_pack': 5,
    'pack_loose': 4,
    'clean': 3,
    'repack': 1.5,
    'repack_pack': 1,
    'delete': 2,
    'loosen': 1.5,
    'import': 1.5,
    'reopen': 1,
    'reinit': 0.4,
    'reinit_clear': 0.15,
    'plant_duplicate': 0.4,
    'damage_readd': 0,
}


def swarm_weights(rng, weights, keep_prob=0.75, always=()):
    out = {}
    for name, weight in weights.items():
        if weight <= 0:
            continue
        if name in always or rng.random() < keep_prob:
            out[name] = weight * rng.choice([0.5, 1, 1, 2])
    if not out:
        out = {'add_loose': 1.0}
    return out


def pick(rng, weights):
    names = sorted(weights)
    return rng.choices(names, [weights[n] for n in names])[0]


def gen_op(rng, name, npool, opts):  # pylint: disable=too-many-branches,too-many-return-statements
    """One operation with seeded arguments. ``opts``: per-run enabled parameter values (swarm)."""
    cidx = lambda: rng.choice(opts['pool_enabled'])  # noqa: E731  pylint: disable=unnecessary-lambda-assignment
    if name == 'add_loose':
        op = {'op': name, 'c': cidx(), 'via': rng.choice(opts['loose_via']), 'seed': rng.randrange(1 << 20)}
        if opts.get('readd') and rng.random() < 0.3:
            op.pop('c')
            op['from_key'] = rng.randrange(64)
        return op
    if name == 'add_pack':
        count = rng.choice([1, 1, 2, 3, 4, 6])
        cs = [cidx() for _ in range(count)]
        if count > 1 and rng.random() < opts.get('dup_in_batch', 0.3):
            cs[rng.randrange(count)] = cs[0]
        op = {
            'op': name,
            'cs': cs,
            'api': rng.choice(opts['pack_api']),
            'via': rng.choice(opts['pack_via']),
            'compress': rng.choice(opts['pack_compress']),
            'no_holes': rng.choice(opts['no_holes']),
            'read_twice': rng.choice(opts['read_twice']),
            'do_fsync': rng.choice(opts['do_fsync']),
            'callback': rng.random() < 0.2,
            'seed': rng.randrange(1 << 20),
        }
        if rng.random() < opts.get('pending_rate', 0.12):
            # "many calls, one commit": 1-3 earlier calls of the same logical batch with do_commit=False
            op['pending'] = [[cidx() for _ in range(rng.choice([1, 1, 2, 3]))] for _ in range(rng.choice([1, 1, 2, 3]))]
        return op
    if name == 'pack_loose':
        return {
            'op': name,
            'compress': rng.choice(opts['compress_modes']),
            'validate': rng.random() < 0.7,
            'clean_per_pack': rng.random() < 0.4,
            'do_fsync': rng.choice(opts['do_fsync']),
            'callback': rng.random() < 0.2,
        }
    if name == 'clean':
        return {'op': name, 'vacuum': rng.random() < 0.3}
    if name == 'repack':
        return {'op': name, 'mode': rng.choice(opts['repack_modes']), 'callback': rng.random() < 0.2}
    if name == 'repack_pack':
        return {'op': name, 'pack': rng.randrange(8), 'mode': rng.choice(opts['repack_modes']), 'callback': rng.random() < 0.3}
    if name == 'delete':
        if rng.random() < 0.25:
            return {'op': name, 'keys': [], 'absent': rng.choice([0, 0, 1]), 'repeats': 0, 'seed': rng.randrange(1 << 20), 'last_indexed': rng.choice([1, 1, 2, 3])}
        return {
            'op': name,
            'keys': [rng.randrange(64) for _ in range(rng.choice([0, 1, 1, 2, 3]))],
            'absent': rng.choice([0, 0, 1, 2]),
            'repeats': 0,  # C11 speaks of *sets* of keys; repeated keys + a stray duplicate file raise (DESIGN.md 4b)
            'seed': rng.randrange(1 << 20),
        }
    if name == 'loosen':
        return {'op': name, 'key': rng.randrange(64), 'absent': rng.random() < 0.1}
    if name == 'import':
        tmb = rng.choice(opts['tmbs'])
        if rng.random() < 0.4:
            tmb = ['sum', rng.choice([1, 1, 2, 2, 3]), rng.choice([-1, 0, 0, 1, 40])]
        return {
            'op': name,
            'src': 'b',
            'keys': [rng.randrange(64) for _ in range(rng.choice([1, 2, 3, 5]))],
            'absent': rng.choice([0, 0, 1]),
            'repeats': rng.choice([0, 0, 1]),
            'kind': rng.choice(opts['import_kinds']),
            'compress': rng.random() < 0.4,
            'tmb': tmb,
            'callback': rng.random() < 0.4,
            'do_fsync': rng.choice(opts['do_fsync']),
            'seed': rng.randrange(1 << 20),
        }
    if name == 'read':
        return {
            'op': name,
            'keys': [rng.randrange(64) for _ in range(rng.choice([1, 2, 3, 5]))],
            'how': rng.choice(['single', 'bulk', 'meta', 'stream', 'stream']),
            'skip': rng.random() < 0.5,
            'chunk': rng.choice([1, 100, 1000, 65536]),
        }
    if name == 'reopen':
        return {'op': name}
    if name in ('reinit', 'reinit_clear'):
        return {'op': name}
    if name == 'plant_duplicate':
        return {'op': name, 'key': rng.randrange(64), 'good': rng.random() < 0.7}
    if name == 'damage_readd':
        return {
            'op': name,
            'key': rng.randrange(64),
            'how': rng.choice(['flip', 'trunc', 'empty']),
            'pos': rng.randrange(1 << 16),
            'bit': rng.randrange(8),
            'via': rng.choice(['bytes', 'short', 'pack', 'pack_nh2', 'pack_nh1']),
            'compress': rng.random() < 0.4,
            'seed': rng.randrange(1 << 20),
        }
    raise ValueError(name)


def subset(rng, values, always_one=True):
    out = [v for v in values if rng.random() < 0.6]
    if not out and always_one:
        out = [rng.choice(values)]
    return out


def make_opts(rng, npool, npool_small=None):
    npool_small = npool if npool_small is None else npool_small
    enabled = [i for i in range(npool) if rng.random() < 0.7] or [0, 1]
    return {
        'pool_enabled': enabled,
        'loose_via': subset(rng, ['bytes', 'stream', 'short', 'file', 'offset', 'noseek']),
        'pack_api': subset(rng, ['objects', 'streams', 'single']),
        'pack_via': subset(rng, ['bytesio', 'short', 'lazy', 'offset', 'noseek']),
        'pack_compress': subset(rng, [True, False]),
        'no_holes': subset(rng, [True, False]),
        'read_twice': subset(rng, [True, False]),
        'do_fsync': subset(rng, [True, True, False]),
        'compress_modes': subset(rng, COMPRESS_MODES),
        'repack_modes': subset(rng, REPACK_MODES),
        'import_kinds': subset(rng, ['list', 'tuple', 'set', 'gen']),
        'tmbs': subset(rng, [1, 50, 300, 1500, 5000, 100000, 104857600]),
        'dup_in_batch': rng.choice([0.0, 0.3, 0.8]),
        'readd': rng.random() < 0.5,
    }


def gen_history(rng, npool, nops, weights=None, opts=None, with_b=True, always=()):
    """Return a list of ops. If ``with_b`` a few ops populate side 'b' first (import source)."""
    weights = swarm_weights(rng, weights or BASE_WEIGHTS, always=always)
    opts = opts or make_opts(rng, npool)
    ops = []
    if with_b and 'import' in weights:
        for _ in range(rng.randint(1, 4)):
            name = rng.choice(['add_loose', 'add_loose', 'add_pack', 'pack_loose'])
            op = gen_op(rng, name, npool, opts)
            op['t'] = 'b'
            ops.append(op)
    elif 'import' in weights:
        del weights['import']
    for _ in range(nops):
        ops.append(gen_op(rng, pick(rng, weights), npool, opts))
    return ops
