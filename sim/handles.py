"""Engine H (C08): sequential histories over k >= 2 long-open handles on one folder.

After every step every handle may be asked (a seeded subset of) existence checks, single and bulk reads, metadata and
listings for all acknowledged keys. Handles are never reopened by the harness; handle 0 is the packing handle.
"""

from __future__ import annotations

import hashlib
import json
import random

from . import gen
from .core import SIM, HarnessError, install
from .hist import classify_exception, drop_scratch, new_scratch, short_tb
from .world import DEFAULT_KNOBS, Knobs, Violation, World, absent_key, make_config, make_pool_specs

QUERY_KINDS = ['has', 'single', 'bulk', 'meta', 'list', 'stream', 'streamseek']


def generate(prop, seed, tier='quick'):
    rng = random.Random(seed)
    pool = make_pool_specs(rng, n_small=8)
    config = make_config(rng)
    handles = rng.randint(2, 4)
    nops = rng.randint(3, 12 if tier == 'quick' else 30)
    opts = gen.make_opts(rng, len(pool))
    ops = []
    for _ in range(nops):
        name = rng.choices(['add_loose', 'pack_loose', 'clean'], [6, 3, 3])[0]
        op = gen.gen_op(rng, name, len(pool), opts)
        op.pop('from_key', None)
        op.setdefault('c', rng.randrange(len(pool)))
        op['h'] = rng.randrange(handles) if name == 'add_loose' else 0
        # which handles are queried after this step, and how
        op['queries'] = [
            sorted(rng.sample(QUERY_KINDS, rng.randint(1, len(QUERY_KINDS)))) if rng.random() < 0.65 else []
            for _ in range(handles)
        ]
        ops.append(op)
    return {
        'engine': 'H',
        'prop': prop,
        'seed': seed,
        'tier': tier,
        'config': config,
        # lowered SQL batch / strategy thresholds in a third of the runs (failures are lifted to real key counts, see
        # lift()); a few runs use real key counts at the shipped thresholds directly ('mass' extra objects per first add)
        'knobs': dict(DEFAULT_KNOBS, in_sql=rng.choice([1, 2, 3, 5]), max_iter=rng.choice([0, 1, 2, 4, 9500])) if rng.random() < 0.35 else dict(DEFAULT_KNOBS),
        'mass': 1000 if rng.random() < (0.02 if tier == 'quick' else 0.1) else 0,
        'pool': pool,
        'handles': handles,
        'ops': ops,
    }


def query_handle(world, side, hidx, kinds, rng):  # pylint: disable=too-many-branches,too-many-locals
    handle = side.handles[hidx]
    model = side.model
    keys = sorted(model)
    absent = [absent_key(side.hash_type, 300)]
    tag = f'handle {hidx}'

    def fail(klass, detail):
        raise Violation(klass, f'{tag}: {detail}', world.step_index)

    request = keys + absent
    rng.shuffle(request)

    def census(what, last_stream):
        # C18 (engine H also serves it): once a bulk read is over no pack or loose file is open any more - checked while
        # the consumer still holds its reference to the last stream, as `with ... as stream` code does
        if world.case.get('prop') != 'C18':
            return
        from .oracles import fd_census  # pylint: disable=import-outside-toplevel
        import os  # pylint: disable=import-outside-toplevel

        bad = [p for p in fd_census(world.root) if not os.path.basename(p).startswith('packs.idx')]
        if bad:
            closed = getattr(last_stream, 'closed', None)
            fail('fd-leak', f'{what} is over, but descriptors are still open on {sorted(bad)[:4]} (last stream closed={closed})')

    for kind in kinds:
        if kind == 'has':
            got = handle.has_objects(request)
            exp = [k in model for k in request]
            if list(got) != exp:
                wrong = [request[i][:12] for i in range(len(request)) if got[i] != exp[i]]
                fail('has_objects-wrong', f'{wrong}')
        elif kind == 'single':
            for key in keys if len(keys) <= 6 else rng.sample(keys, 6):
                if handle.get_object_content(key) != model[key]:
                    fail('wrong-bytes', f'get_object_content key={key[:12]}')
        elif kind == 'bulk':
            got = handle.get_objects_content(request, skip_if_missing=True)
            if got != dict(model):
                missing = sorted(k[:12] for k in set(model) - set(got))
                fail('bulk-content-wrong', f'missing={missing} wrong={[k[:12] for k in got if got[k] != model.get(k)]}')
        elif kind == 'meta':
            metas = dict(handle.get_objects_meta(request, skip_if_missing=True))
            if set(metas) != set(model):
                fail('bulk-meta-keys-wrong', f'missing={sorted(k[:12] for k in set(model) - set(metas))}')
            for key, meta in metas.items():
                if meta.size != len(model[key]):
                    fail('wrong-size', f'key={key[:12]} size={meta.size}')
        elif kind == 'list':
            listing = list(handle.list_all_objects())
            if sorted(listing) != keys:
                fail(
                    'listing-wrong',
                    f'missing={sorted(k[:12] for k in set(keys) - set(listing))} '
                    f'extra={sorted(k[:12] for k in set(listing) - set(keys))} repeated={len(listing) - len(set(listing))}',
                )
        elif kind == 'stream':
            seen = {}
            stream = None
            with handle.get_objects_stream_and_meta(request, skip_if_missing=False) as triplets:
                for key, stream, _ in triplets:
                    seen[key] = None if stream is None else stream.read()
            census('get_objects_stream_and_meta (sequential reads)', stream if request else None)
            exp = {k: model.get(k) for k in request}
            if seen != exp:
                fail('wrong-bytes', f'get_objects_stream_and_meta differs for {[k[:12] for k in exp if seen.get(k, 0) != exp[k]]}')
        elif kind == 'streamseek':
            # random access on the streams of a bulk read (zip / npy readers do this): a backward seek makes a compressed
            # packed object fall back to its re-loosened copy, which must be the copy of *this* object
            subset = request if len(request) <= 40 else rng.sample(request, 40)
            stream = None
            with handle.get_objects_stream_and_meta(subset, skip_if_missing=True) as triplets:
                for key, stream, _ in triplets:
                    data = model.get(key)
                    if data is None:
                        fail('unexpected-key', f'get_objects_stream_and_meta yields {key[:12]}')
                    head = stream.read(min(3, len(data)))
                    end = stream.seek(0, 2)
                    back = rng.randrange(len(data) + 1)
                    pos = stream.seek(-back, 2) if back or rng.random() < 0.5 else stream.seek(len(data))
                    tail = stream.read()
                    if head != data[: len(head)] or end != len(data) or pos != len(data) - back or tail != data[len(data) - back :]:
                        fail(
                            'wrong-bytes',
                            f'bulk stream of {key[:12]} (len {len(data)}): read(3)={head!r} seek(0,2)={end} '
                            f'seek(-{back},2)={pos} then read() gives {len(tail)} bytes, matching={tail == data[len(data) - back :]}',
                        )
            census('get_objects_stream_and_meta (streams with seeks)', stream)
            # ... and the same through the single-object entry point, the way `with c.get_object_stream(k) as stream` is used
            for key in [k for k in subset if k in model][:3]:
                data = model[key]
                with handle.get_object_stream(key) as stream:
                    stream.seek(0, 2)
                    stream.seek(0)
                    if stream.read() != data:
                        fail('wrong-bytes', f'get_object_stream of {key[:12]} after seek(0,2); seek(0)')
                census('get_object_stream (with seeks)', stream)


class HandlesOracle:
    def __init__(self, seed):
        self.rng = random.Random(seed ^ 0xC08)
        self.queried = set()
        self.nontrivial = False
        self.outcomes = []
        self.checked_steps = 0
        self.mass_done = False

    def after(self, world, side, op, info, pre):
        del info, pre
        self.checked_steps += 1
        mass = world.case.get('mass', 0)
        if mass and op['op'] == 'add_loose' and not self.mass_done:
            # real key counts: the first add is accompanied by `mass` more small objects through the same handle
            self.mass_done = True
            handle = world.handle(side, op)
            with SIM.quiet():
                for i in range(mass):
                    data = b'mass-%d' % i
                    side.model[handle.add_object(data)] = data
        if op['op'] in ('pack_loose', 'clean') and any(h != 0 for h in self.queried):
            self.nontrivial = True
        with SIM.quiet():
            for hidx, kinds in enumerate(op.get('queries', [])[: len(side.handles)]):
                if kinds:
                    query_handle(world, side, hidx, kinds, self.rng)
                    self.queried.add(hidx)
                    self.outcomes.append((world.step_index, hidx, tuple(kinds)))


def execute(case):
    install()
    seed = case['seed']
    root = new_scratch()
    SIM.reset(root, seed=seed, fs_rng=random.Random(seed + 17))
    oracle = HandlesOracle(seed)
    result = {'ok': True, 'violation': None, 'error': None}
    world = None
    try:
        with Knobs(case.get('knobs')):
            world = World(root, case, oracle)
            try:
                world.create_side('c', case['config'], nhandles=case['handles'])
                # all index writes go through handle 0 (the packing handle): never re-open handles here
                world.sides['c'].last_index_writer = None
                world.INDEX_WRITERS = ()
                world.run(case['ops'])
                if case.get('prop') == 'C18':
                    import gc  # pylint: disable=import-outside-toplevel

                    from .oracles import fd_census  # pylint: disable=import-outside-toplevel

                    world.close_all()
                    gc.collect()
                    left = fd_census(root)
                    if left:
                        raise Violation('fd-leak-after-close', f'{sorted(left)[:6]}', len(case['ops']))
            except Violation as exc:
                result['ok'] = False
                result['violation'] = exc.as_dict()
            except HarnessError:
                raise
            except Exception as exc:  # pylint: disable=broad-except
                if classify_exception(exc) == 'library':
                    result['ok'] = False
                    result['violation'] = {
                        'class': 'unexpected-exception:' + type(exc).__name__,
                        'detail': f'{exc!r}\n{short_tb(exc)}'[:2000],
                        'step': world.step_index,
                    }
                else:
                    raise
    except Exception as exc:  # pylint: disable=broad-except
        result['ok'] = False
        result['error'] = f'{exc!r}\n{short_tb(exc, 10)}'
    finally:
        if world is not None:
            world.close_all()
        result.update(
            {
                'digest': SIM.digest.hexdigest(),
                'steps': SIM.step,
                'evals': 1,
                'nontrivial': oracle.nontrivial,
                'behaviour': hashlib.sha1(
                    json.dumps([[o['op'], o.get('h', 0), o.get('queries')] for o in case['ops']]).encode() + SIM.digest.digest()
                ).hexdigest()[:16],
                'ops': world.stats['ops'] if world else {},
                'faults': {},
                'probes': {'handle_queries': len(oracle.outcomes), 'handles': case['handles']},
                'kinds': dict(SIM.kinds),
            }
        )
        SIM.reset(None)
        drop_scratch(root)
    return result


def lift(case, result):
    """Lowered SQL thresholds -> shipped thresholds with real key counts ('mass' objects added with the first add)."""
    if result['ok'] or result.get('error') or case.get('knobs') == DEFAULT_KNOBS:
        return case, result, None
    from .shrink import vclass  # pylint: disable=import-outside-toplevel

    lifted = dict(case, knobs=dict(DEFAULT_KNOBS))
    res2 = execute(lifted)
    if vclass(res2) == vclass(result) and not res2.get('error'):
        return lifted, res2, 'lifted-as-is'
    mass = 9600 if case['knobs']['max_iter'] < 9500 and case['knobs']['in_sql'] >= 950 else 1000
    for count in (mass, 9600 if mass != 9600 and case['knobs']['max_iter'] < 9500 else None):
        if count is None:
            continue
        scaled = dict(case, knobs=dict(DEFAULT_KNOBS), mass=count)
        res3 = execute(scaled)
        if vclass(res3) == vclass(result) and not res3.get('error'):
            return scaled, res3, f'lifted-scaled (shipped thresholds, {count} extra objects)'
    ok = dict(result, ok=True, candidate=result['violation'], violation=None)
    return case, ok, 'knob-only-candidate'
