"""Engine A: sequential-history properties (C01 C02 C03 C09 C10 C11 C12a C13 C14 C16 C18-descriptors)."""

from __future__ import annotations

import hashlib
import json
import os
import random
import shutil
import traceback

from . import gen, rawread
from .core import SIM, HarnessError, install
from .oracles import Oracle, check_views, fd_census
from .world import DEFAULT_KNOBS, Knobs, Violation, World, make_config, make_knobs, make_pool_specs

SCRATCH_BASE = '/dev/shm' if os.path.isdir('/dev/shm') and os.access('/dev/shm', os.W_OK) else os.environ.get('TMPDIR', '/tmp')
_COUNTER = [0]


def new_scratch():
    _COUNTER[0] += 1
    base = os.path.join(SCRATCH_BASE, f'dos-sim-{os.getpid()}')
    root = os.path.join(base, f'r{_COUNTER[0]}')
    if os.path.exists(root):
        shutil.rmtree(root)
    os.makedirs(root)
    return root


def drop_scratch(root):
    shutil.rmtree(root, ignore_errors=True)
    try:
        os.rmdir(os.path.dirname(root))
    except OSError:
        pass


W = gen.BASE_WEIGHTS

PROFILES = {
    'C01': {
        'oracles': ['views'],
        'weights': {'add_loose': 5, 'add_pack': 6, 'reopen': 0.5, 'pack_loose': 0.5},
        'always': ('add_loose', 'add_pack'),
        'with_b': False,
        'big': 0.35,
        'lowered': 0.5,
        'nops': (3, 10),
    },
    # 'stale': in a quarter of the runs two handles are open and maintenance may go through a long-open handle whose
    # snapshot is stale (loud "database is locked" refusals are fine, silent damage is not - see World.step)
    'C02': {'oracles': ['views', 'counts'], 'weights': W, 'with_b': True, 'big': 0.08, 'lowered': 0.3, 'nops': (3, 14), 'stale': 0.25, 'mass': 0.02},
    'C03': {'oracles': ['raw'], 'weights': W, 'with_b': True, 'big': 0.08, 'lowered': 0.3, 'nops': (3, 14), 'stale': 0.25, 'mass': 0.01},
    'C09': {
        'oracles': ['dedup', 'raw', 'views', 'counts'],
        'light': True,
        'weights': {
            'add_loose': 6,
            'add_pack': 8,
            'pack_loose': 3,
            'clean': 2,
            'import': 1.5,
            'loosen': 2,
            'damage_readd': 2.5,
            'reopen': 0.5,
            'delete': 0.5,
        },
        'always': ('add_pack',),
        'with_b': True,
        'same_hash_b': 0.7,
        'big': 0.05,
        'lowered': 0.3,
        'nops': (4, 14),
        'small_pool': True,
        'mass': 0.05,
    },
    'C10': {
        'oracles': ['compress', 'views', 'raw', 'meta', 'counts'],
        'light': True,
        'weights': {'add_loose': 5, 'add_pack': 3, 'pack_loose': 5, 'repack': 4, 'repack_pack': 2, 'loosen': 1, 'clean': 1},
        'always': ('pack_loose', 'repack'),
        'with_b': False,
        'big': 0.3,
        'lowered': 0.3,
        'nops': (4, 12),
    },
    'C11': {
        'oracles': ['delete', 'views', 'raw'],
        'light': True,
        'weights': dict(W, delete=6, repack=4, plant_duplicate=1.5, reinit_clear=0),
        'always': ('delete', 'repack'),
        'with_b': False,
        'big': 0.05,
        'lowered': 0.3,
        'nops': (4, 14),
        'stale': 0.25,
        'mass': 0.02,
    },
    'C12': {'oracles': ['validate'], 'weights': W, 'with_b': True, 'big': 0.08, 'lowered': 0.3, 'nops': (3, 14)},
    'C13': {
        'oracles': ['monotone'],
        'weights': {k: v for k, v in W.items() if k not in ('repack', 'repack_pack', 'reinit_clear')},
        'with_b': True,
        'big': 0.05,
        'lowered': 0.2,
        'nops': (4, 14),
        'handles': (1, 3),
        'small_targets_bias': True,
    },
    'C14': {
        'oracles': ['import', 'raw', 'views'],
        'light': True,
        'weights': {'add_loose': 3, 'add_pack': 2, 'pack_loose': 1.5, 'import': 7, 'clean': 0.5, 'delete': 0.5, 'reopen': 0.3},
        'always': ('import',),
        'with_b': True,
        'b_heavy': True,
        'big': 0.05,
        'lowered': 0.2,
        'nops': (3, 10),
    },
    'C16': {
        'oracles': ['views', 'counts', 'raw'],
        'weights': dict(W, repack=0.5, repack_pack=0.3, reinit=0, reinit_clear=0),
        'with_b': True,
        'same_hash_b': 0.8,
        'big': 0.0,
        'lowered': 1.0,
        'sql_knobs_only': True,
        'nops': (4, 14),
        'many_keys': True,
        'mass': 0.04,
    },
    'C18': {'oracles': ['fds'], 'weights': W, 'with_b': True, 'big': 0.05, 'lowered': 0.2, 'nops': (3, 14), 'handles': (1, 2)},
}


def generate(prop, seed, tier='quick'):
    """Seed -> case (JSON-able)."""
    prof = PROFILES[prop]
    rng = random.Random(seed)
    thorough = tier == 'thorough'
    big = rng.random() < prof['big'] * (1.5 if thorough else 1.0)
    n_small = 6 if prof.get('small_pool') else 10
    if prof.get('many_keys'):
        n_small = 30
    pool = make_pool_specs(rng, n_small=n_small, n_big=rng.randint(1, 3) if big else 0)
    config = make_config(rng)
    if prof.get('small_targets_bias') and rng.random() < 0.6:
        config['pack_size_target'] = rng.choice([1, 50, 500, 3000])
    config_b = make_config(rng)
    if 'same_hash_b' in prof:
        if rng.random() < prof['same_hash_b']:
            config_b['hash_type'] = config['hash_type']
    lowered = rng.random() < prof['lowered']
    knobs = make_knobs(rng, lowered)
    if prof.get('sql_knobs_only'):
        knobs['chunk'] = DEFAULT_KNOBS['chunk']
        knobs['zchunk'] = DEFAULT_KNOBS['zchunk']
    if big:
        # byte-sized chunks on objects of hundreds of KiB mean millions of seam calls in one run (minutes under load)
        knobs['chunk'] = max(knobs['chunk'], 4096)
        knobs['zchunk'] = max(knobs['zchunk'], 4096)
    lo, hi = prof['nops']
    if thorough:
        hi = hi * 3
    nops = rng.randint(lo, hi)
    handles = rng.randint(*prof.get('handles', (1, 1)))
    stale = rng.random() < prof.get('stale', 0)
    if stale:
        handles = 2
    ops = gen.gen_history(
        rng, len(pool), nops, weights=prof['weights'], with_b=prof['with_b'], always=prof.get('always', ())
    )
    if prof.get('b_heavy'):
        extra = []
        opts = gen.make_opts(rng, len(pool))
        for _ in range(rng.randint(2, 6)):
            op = gen.gen_op(rng, rng.choice(['add_loose', 'add_pack', 'add_pack', 'pack_loose']), len(pool), opts)
            op['t'] = 'b'
            extra.append(op)
        ops = extra + ops
    if handles > 1:
        for op in ops:
            if op.get('t', 'c') == 'c':
                op['h'] = rng.randrange(handles)
                if stale and op['op'] in ('delete', 'repack', 'repack_pack', 'pack_loose', 'clean', 'import'):
                    op['h'] = 0  # maintenance goes through the long-open handle
    if rng.random() < prof.get('mass', 0) * (3 if thorough else 1):
        # real index sizes: one direct-to-pack batch carries more than 1000 extra tiny objects, so that listings, the
        # known-keys scan of no_holes, repack and validation page through the index (their page size is not a knob)
        packs = [op for op in ops if op['op'] == 'add_pack' and op.get('t', 'c') == 'c']
        if packs:
            packs[0]['mass'] = rng.choice([1001, 1203, 2005, 2005, 3005])
            packs[0].setdefault('seed', 0)
            if 'delete' in prof['weights'] and rng.random() < 0.6:
                # ... and a later delete removes a long run of consecutively inserted objects (a gap of >= 1000 ids in
                # the index, possibly a whole page at its start or end), after which everything is compared again
                mass = packs[0]['mass']
                lo = rng.choice([0, 0, 1, 7])
                hi = min(mass, lo + rng.choice([1000, 1001, 1100, 2000, mass, mass]))  # (>= 1999 ids: a whole aligned page is empty)
                first = ops.index(packs[0]) + 1
                pos = rng.randint(first, min(len(ops), first + 2) if rng.random() < 0.6 else len(ops))
                dele = {'op': 'delete', 'keys': [], 'absent': 0, 'repeats': 0, 'seed': rng.randrange(1 << 20), 'mass_range': [packs[0]['seed'], lo, hi]}
                if handles > 1:
                    dele['h'] = 0
                ops.insert(pos, dele)
    return {
        'engine': 'A',
        'prop': prop,
        'seed': seed,
        'tier': tier,
        'config': config,
        'config_b': config_b,
        'knobs': knobs,
        'pool': pool,
        'handles': handles,
        'stale_maintenance': stale,
        'ops': ops,
    }


def classify_exception(exc):
    """'library' if the exception was raised by code outside /verif (=> violation), else 'harness'."""
    if isinstance(exc, rawread.LayoutBroken):
        return 'library'
    tback = traceback.extract_tb(exc.__traceback__)
    if not tback:
        return 'harness'
    here = os.path.dirname(os.path.abspath(__file__))
    # an exception that passed through the library at all is attributed to the library
    for frame in tback:
        if '/disk_objectstore/' in frame.filename and not frame.filename.startswith(here):
            return 'library'
    return 'harness'


def short_tb(exc, limit=6):
    lines = traceback.format_exception(type(exc), exc, exc.__traceback__)
    return ''.join(lines[-limit:])[-1500:]


def execute(case, keep_root=False):  # pylint: disable=too-many-locals,too-many-branches,too-many-statements
    """Run one case; return the result record."""
    install()
    prof = PROFILES[case['prop']]
    seed = case['seed']
    root = new_scratch()
    SIM.reset(root, seed=seed, fs_rng=random.Random(seed + 17))
    oracle = Oracle(case.get('oracles') or prof['oracles'], seed=seed, light_views=prof.get('light', False))
    result = {'ok': True, 'violation': None, 'error': None}
    world = None
    try:
        with Knobs(case.get('knobs')):
            world = World(root, case, oracle)
            try:
                world.create_side('c', case['config'], nhandles=case.get('handles', 1))
                if any(op.get('t') == 'b' or op.get('src') == 'b' for op in case['ops']):
                    world.create_side('b', case['config_b'])
                world.run(case['ops'])
                # final: a fresh handle sees the same thing; after closing everything no descriptor is left
                side = world.sides['c']
                with SIM.quiet():
                    if 'views' in oracle.enabled:
                        with world.lib.Container(side.folder) as fresh:  # the context-manager form closes it
                            world.step_index = len(case['ops'])
                            check_views(world, side, fresh, oracle.rng, light=True)
                    if 'raw' in oracle.enabled:
                        problems, _ = rawread.verify(side.folder, model=side.model)
                        if problems:
                            raise Violation('raw:' + problems[0].split(' ')[0], '; '.join(problems[:4]), len(case['ops']))
                world.close_all()
                if 'fds' in oracle.enabled:
                    left = fd_census(root)
                    if left:
                        raise Violation('fd-leak-after-close', f'{sorted(left)[:6]}', len(case['ops']))
            except Violation as exc:
                result['ok'] = False
                result['violation'] = exc.as_dict()
            except HarnessError:
                raise
            except Exception as exc:  # pylint: disable=broad-except
                if classify_exception(exc) == 'library':
                    result['ok'] = False
                    result['violation'] = {
                        'class': 'unexpected-exception:' + type(exc).__name__,
                        'detail': f'{exc!r}\n{short_tb(exc)}'[:2000],
                        'step': world.step_index,
                    }
                else:
                    raise
    except Exception as exc:  # pylint: disable=broad-except
        result['ok'] = False
        result['error'] = f'{exc!r}\n{short_tb(exc, 10)}'
    finally:
        if world is not None:
            world.close_all()
        stats = world.stats if world else {'ops': {}}
        kinds = sorted(stats['ops'])
        result.update(
            {
                'digest': SIM.digest.hexdigest(),
                'steps': SIM.step,
                'evals': 1,
                'checked_steps': oracle.checked_steps,
                'nontrivial': len(kinds) >= 2 and oracle.checked_steps >= 2,
                'behaviour': hashlib.sha1(
                    json.dumps([[o['op'], o.get('t', 'c')] for o in case['ops']]).encode()
                    + repr(sorted(oracle.abstract_states)).encode()
                    + SIM.digest.digest()
                ).hexdigest()[:16],
                'ops': stats['ops'],
                'faults': {'short_reads': stats.get('short_reads', 0)},
                'probes': dict(
                    oracle.probes,
                    abstract_states=len(oracle.abstract_states),
                    lowered_knobs=int(case.get('knobs') != DEFAULT_KNOBS),
                    uncommitted_batches_before_commit=stats.get('pending_batches', 0),
                ),
                'kinds': dict(SIM.kinds),
            }
        )
        SIM.reset(None)
        if not keep_root:
            drop_scratch(root)
    return result


def lift(case, result):
    """A failure under lowered constants is only a candidate (DESIGN 2.9): re-run at shipped constants."""
    if result['ok'] or result.get('error') or case.get('knobs') == DEFAULT_KNOBS:
        return case, result, None
    klass = result['violation']['class'].split(':')[0]
    lifted = dict(case, knobs=dict(DEFAULT_KNOBS))
    res2 = execute(lifted)
    if not res2['ok'] and not res2.get('error') and res2['violation']['class'].split(':')[0] == klass:
        return lifted, res2, 'lifted-as-is'
    if case['knobs']['chunk'] == DEFAULT_KNOBS['chunk'] and case['knobs']['zchunk'] == DEFAULT_KNOBS['zchunk']:
        # Only the SQL batch / lookup-strategy thresholds are lowered. C16 states that results do not depend on which
        # strategy or batch size the request count triggers; a lowered threshold with few keys exercises the same code
        # as the shipped threshold with many keys (engine K lifts such failures to real sizes; histories are reported
        # with the lowered thresholds recorded in the replay file).
        return case, result, 'sql-thresholds-lowered (strategy/batch switch reached with few keys)'
    # scale contents so that the same chunk boundaries are crossed at the shipped constants
    knobs = case['knobs']
    factor = max(DEFAULT_KNOBS['chunk'] // max(1, knobs['chunk']), DEFAULT_KNOBS['zchunk'] // max(1, knobs['zchunk']))
    if factor > 1:
        pool = []
        for kind, length, sseed in case['pool']:
            pool.append([kind, min(length * factor, 3_000_000), sseed])
        scaled = dict(case, knobs=dict(DEFAULT_KNOBS), pool=pool)
        res3 = execute(scaled)
        if not res3['ok'] and not res3.get('error') and res3['violation']['class'].split(':')[0] == klass:
            return scaled, res3, 'lifted-scaled'
    ok = dict(result, ok=True, candidate=result['violation'], violation=None)
    return case, ok, 'knob-only-candidate'
