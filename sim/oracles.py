"""Oracles of engine A (DESIGN.md 2.5): views vs reference model, raw reader, packs_monotone, per-op checks."""

from __future__ import annotations

import os
import random

from . import rawread
from .core import SIM
from .world import Violation, absent_key, tree_digest


def _fail(world, klass, detail):
    raise Violation(klass, detail, world.step_index)


def pack_bytes(folder):
    out = {}
    packdir = os.path.join(folder, 'packs')
    for name in os.listdir(packdir):
        if name.isdigit() or name == '-1':
            with open(os.path.join(packdir, name), 'rb') as handle:
                out[name] = handle.read()
    return out


def read_stream_chunked(stream, chunk):
    parts = []
    while True:
        data = stream.read(chunk)
        if not data:
            break
        parts.append(data)
    return b''.join(parts)


def check_views(world, side, handle, rng, light=False):  # pylint: disable=too-many-locals,too-many-branches,too-many-statements
    """Every view of the handle equals what the key->bytes map answers (C02; also C01, C08 subsets)."""
    from disk_objectstore.exceptions import NotExistent  # pylint: disable=import-outside-toplevel

    model = side.model
    htype = side.hash_type
    keys = sorted(model)
    absent = [absent_key(htype, 100 + i) for i in range(2)]
    request = keys + absent + keys[:2]
    rng.shuffle(request)

    # Asking for a key that does not exist makes the library close its session and query again - which also heals a
    # handle whose session went stale. Half of the time the first questions are therefore about existing objects only.
    if keys and rng.random() < 0.5:
        for key in keys if len(keys) <= 6 else rng.sample(keys, 6):
            content = handle.get_object_content(key)
            if content != model[key]:
                _fail(world, 'wrong-bytes', f'get_object_content key={key[:12]} got len {len(content)} expected {len(model[key])} (first query after the step)')

    got = handle.has_objects(request)
    expected = [k in model for k in request]
    if list(got) != expected:
        wrong = [request[i][:12] for i in range(len(request)) if got[i] != expected[i]]
        _fail(world, 'has_objects-wrong', f'keys {wrong} (of {len(request)} requested)')

    sample = keys if len(keys) <= 8 else rng.sample(keys, 8)
    for key in sample:
        data = model[key]
        content = handle.get_object_content(key)
        if content != data:
            _fail(world, 'wrong-bytes', f'get_object_content key={key[:12]} got len {len(content)} expected {len(data)}')
        if not light:
            meta = handle.get_object_meta(key)
            if meta.size != len(data):
                _fail(world, 'wrong-size', f'get_object_meta key={key[:12]} size={meta.size} expected {len(data)}')
            chunk = rng.choice([1, 1000, 65536, 1000000]) if len(data) < 5000 else rng.choice([1000, 65536, 1000000])
            with handle.get_object_stream_and_meta(key) as (stream, meta2):
                content = read_stream_chunked(stream, chunk)
            if content != data:
                _fail(world, 'wrong-bytes', f'chunked({chunk}) stream read key={key[:12]} len {len(content)} vs {len(data)}')
            if meta2.size != len(data):
                _fail(world, 'wrong-size', f'stream meta key={key[:12]} size={meta2.size} expected {len(data)}')
            if not handle.has_object(key):
                _fail(world, 'has_objects-wrong', f'has_object({key[:12]}) is False')

    if not light:
        for name, call in (
            ('get_object_content', handle.get_object_content),
            ('get_object_meta', handle.get_object_meta),
        ):
            try:
                call(absent[0])
            except NotExistent:
                pass
            else:
                _fail(world, 'missing-exception', f'{name}(absent key) did not raise NotExistent')
        try:
            with handle.get_object_stream(absent[1]) as stream:
                stream.read()
        except NotExistent:
            pass
        else:
            _fail(world, 'missing-exception', 'get_object_stream(absent key) did not raise NotExistent')

    distinct = set(request)
    bulk = handle.get_objects_content(request, skip_if_missing=True)
    exp_bulk = {k: model[k] for k in distinct if k in model}
    if bulk != exp_bulk:
        bad = sorted(k[:12] for k in set(bulk) ^ set(exp_bulk)) or sorted(
            k[:12] for k in exp_bulk if bulk.get(k) != exp_bulk[k]
        )
        _fail(world, 'bulk-content-wrong', f'get_objects_content(skip=True) differs for {bad}')
    if not light:
        bulk = handle.get_objects_content(request, skip_if_missing=False)
        exp_bulk = {k: model.get(k) for k in distinct}
        if bulk != exp_bulk:
            bad = sorted(k[:12] for k in distinct if bulk.get(k, 0) != exp_bulk[k])
            _fail(world, 'bulk-content-wrong', f'get_objects_content(skip=False) differs for {bad}')

        metas = list(handle.get_objects_meta(request, skip_if_missing=False))
        if sorted(k for k, _ in metas) != sorted(distinct):
            _fail(world, 'bulk-meta-keys-wrong', f'get_objects_meta returned {len(metas)} items for {len(distinct)} distinct')
        for key, meta in metas:
            exp_size = len(model[key]) if key in model else None
            if meta.size != exp_size:
                _fail(world, 'wrong-size', f'get_objects_meta key={key[:12]} size={meta.size} expected {exp_size}')
            if (meta.type.value == 'missing') != (key not in model):
                _fail(world, 'bulk-meta-keys-wrong', f'get_objects_meta key={key[:12]} type={meta.type}')

        seen = []
        with handle.get_objects_stream_and_meta(request, skip_if_missing=True) as triplets:
            for key, stream, meta in triplets:
                seen.append(key)
                content = stream.read()
                if key not in model or content != model[key]:
                    _fail(world, 'wrong-bytes', f'get_objects_stream_and_meta key={key[:12]}')
                if meta.size != len(content):
                    _fail(world, 'wrong-size', f'get_objects_stream_and_meta key={key[:12]} size={meta.size}')
        if sorted(seen) != sorted(k for k in distinct if k in model):
            _fail(world, 'bulk-stream-keys-wrong', f'{len(seen)} triplets for {len(exp_bulk)} present keys')

    listing = list(handle.list_all_objects())
    if sorted(listing) != keys:
        missing = sorted(k[:12] for k in set(keys) - set(listing))
        extra = sorted(k[:12] for k in set(listing) - set(keys))
        dup = len(listing) - len(set(listing))
        _fail(world, 'listing-wrong', f'list_all_objects: missing={missing} extra={extra} repeated={dup}')


def check_counts(world, side, handle, state):
    """count_objects / get_total_size equal the numbers computed from raw observations."""
    tot = rawread.totals(state)
    cnt = handle.count_objects()
    for name in ('packed', 'loose', 'pack_files'):
        if cnt[name] != tot[name]:
            _fail(world, 'count-wrong', f'count_objects.{name}={cnt[name]} raw={tot[name]}')
    both = sum(1 for r in state.rows if r['hashkey'] in state.loose)
    if cnt['packed'] + cnt['loose'] - both != len(side.model):
        _fail(world, 'count-wrong', f"packed+loose-both={cnt['packed'] + cnt['loose'] - both} model={len(side.model)}")
    size = handle.get_total_size()
    for name in ('total_size_packed', 'total_size_packed_on_disk', 'total_size_packfiles_on_disk', 'total_size_loose'):
        if size[name] != tot[name]:
            _fail(world, 'total-size-wrong', f'get_total_size.{name}={size[name]} raw={tot[name]}')


def check_meta_rows(world, side, handle, state):
    """get_object_meta fields equal the index row (C10)."""
    for row in state.rows:
        meta = handle.get_object_meta(row['hashkey'])
        got = (meta.type.value, meta.size, meta.pack_id, bool(meta.pack_compressed), meta.pack_offset, meta.pack_length)
        exp = ('packed', row['size'], row['pack_id'], row['compressed'], row['offset'], row['length'])
        if got != exp:
            _fail(world, 'meta-ne-row', f"key={row['hashkey'][:12]} meta={got} row={exp}")
    for key, path in state.loose.items():
        if any(r['hashkey'] == key for r in state.rows):
            continue
        meta = handle.get_object_meta(key)
        if meta.type.value != 'loose' or meta.size != os.stat(path).st_size or meta.pack_id is not None:
            _fail(world, 'meta-ne-row', f'loose key={key[:12]} meta={meta}')


def check_packs_monotone(world, side, pre, post_state, post_bytes, fill_rules=True):
    """C13: referenced bytes never change, packs only grow at the end, numbered 0..n-1, only the last below target.
    ``fill_rules=False`` checks the append-only clauses alone (used after a fault that made data the library believes
    written disappear: its size arithmetic is then legitimately off, what is referenced must still never change)."""
    pre_state, pre_bytes = pre
    target = side.config['pack_size_target']
    for row in pre_state.rows:
        name = str(row['pack_id'])
        old = pre_bytes.get(name, b'')[row['offset'] : row['offset'] + row['length']]
        new = post_bytes.get(name)
        if new is None:
            _fail(world, 'pack-vanished', f'pack {name} referenced before the step does not exist after it')
        if new[row['offset'] : row['offset'] + row['length']] != old:
            _fail(world, 'referenced-bytes-changed', f"pack {name} bytes [{row['offset']},+{row['length']}) changed")
    for state, blobs, when in ((pre_state, pre_bytes, 'before'), (post_state, post_bytes, 'after')):
        for row in state.rows:
            name = str(row['pack_id'])
            if row['offset'] + row['length'] > len(blobs.get(name, b'')):
                _fail(world, 'pack-shorter-than-reference', f'{when}: pack {name} shorter than its last referenced byte')
    if not fill_rules:
        return
    ids = sorted(int(n) for n in post_bytes if n != '-1')
    if ids != list(range(len(ids))):
        _fail(world, 'pack-ids-not-consecutive', f'{ids}')
    if '-1' in post_bytes:
        _fail(world, 'repack-pack-left', 'packs/-1 exists after a non-repack operation')
    for pid in ids[:-1]:
        if len(post_bytes[str(pid)]) < target:
            _fail(world, 'non-last-pack-below-target', f'pack {pid} size {len(post_bytes[str(pid)])} < target {target}')
    pre_ids = sorted(int(n) for n in pre_bytes if n != '-1')
    for pid in pre_ids[:-1]:
        if post_bytes.get(str(pid)) != pre_bytes[str(pid)]:
            _fail(world, 'full-pack-rewritten', f'pack {pid} was not the highest before the step but changed')
    for pid in pre_ids[-1:]:
        old = pre_bytes[str(pid)]
        new = post_bytes.get(str(pid), b'')
        last_ref = max((r['offset'] + r['length'] for r in pre_state.rows if r['pack_id'] == pid), default=0)
        if new[:last_ref] != old[:last_ref]:
            _fail(world, 'referenced-bytes-changed', f'pack {pid}: prefix up to last referenced byte changed')


def check_tiling(world, side, state, blobs):
    """C11: after a full repack every pack is exactly the concatenation of its live objects' stored bytes."""
    del side
    by_pack = {}
    for row in state.rows:
        by_pack.setdefault(str(row['pack_id']), []).append(row)
    for name, blob in blobs.items():
        if name == '-1':
            _fail(world, 'repack-pack-left', 'packs/-1 exists after repack')
        rows = sorted(by_pack.get(name, []), key=lambda r: r['offset'])
        if not rows:
            _fail(world, 'empty-pack-not-removed', f'pack {name} has no live rows but exists ({len(blob)} bytes)')
        pos = 0
        for row in rows:
            if row['offset'] != pos:
                _fail(world, 'pack-not-tiled', f"pack {name}: row at {row['offset']} expected {pos}")
            pos += row['length']
        if pos != len(blob):
            _fail(world, 'pack-not-tiled', f'pack {name}: rows end at {pos}, file size {len(blob)}')
    for name in by_pack:
        if name not in blobs:
            _fail(world, 'pack-vanished', f'pack {name} has rows but no file')
    if state.other_pack_entries:
        _fail(world, 'lock-left', f'{state.other_pack_entries}')


def stored_bytes(state, blobs):
    return {
        r['hashkey']: (r['compressed'], blobs.get(str(r['pack_id']), b'')[r['offset'] : r['offset'] + r['length']])
        for r in state.rows
    }


class Oracle:  # pylint: disable=too-many-instance-attributes
    """Configurable set of checks evaluated after every step."""

    ALL = (
        'views',
        'raw',
        'counts',
        'validate',
        'monotone',
        'dedup',
        'compress',
        'delete',
        'import',
        'fds',
        'meta',
    )

    def __init__(self, enabled, seed=0, light_views=False, every=1):
        self.enabled = set(enabled)
        self.rng = random.Random(seed ^ 0x5EED)
        self.light_views = light_views
        self.every = every
        self.checked_steps = 0
        self.abstract_states = set()
        self.fd_baseline = None
        self.probes = {}

    def need_pre(self):
        return self.enabled & {'monotone', 'dedup', 'compress', 'delete', 'import'}

    def before(self, world, side, op):
        if not self.need_pre():
            return None
        with SIM.quiet():
            pre = {'state': rawread.read_state(side.folder), 'bytes': pack_bytes(side.folder)}
            if op['op'] == 'import' and 'import' in self.enabled:
                src = world.sides[op['src']]
                pre['src_digest'] = tree_digest(src.folder, skip_index=True)
                pre['src_rows'] = rawread.read_state(src.folder).rows
                pre['dst_loose_stat'] = {
                    k: (os.stat(p).st_ino, os.stat(p).st_mtime_ns) for k, p in pre['state'].loose.items()
                }
        return pre

    def after(self, world, side, op, info, pre):  # pylint: disable=too-many-branches,too-many-locals,too-many-statements
        if info.get('skipped'):
            return
        self.checked_steps += 1
        handle = world.handle(side, op)
        en = self.enabled
        with SIM.quiet():
            state = None
            blobs = None
            if en & {'raw', 'counts', 'monotone', 'dedup', 'compress', 'delete', 'import', 'meta'}:
                state = rawread.read_state(side.folder)
            if 'raw' in en:
                problems, observed = rawread.verify(side.folder, model=side.model, state=state)
                if problems:
                    _fail(world, 'raw:' + problems[0].split(' ')[0], '; '.join(problems[:4]))
                self.abstract_states.add(
                    hash(frozenset((k[:6], bool(v['row']), v['loose'], bool(v['row'] and v['row']['compressed'])) for k, v in observed.items()))
                )
            if 'views' in en:
                check_views(world, side, handle, self.rng, light=self.light_views)
            if 'counts' in en:
                state2 = rawread.read_state(side.folder)
                check_counts(world, side, handle, state2)
                if op['op'] == 'clean':
                    # cleaning == "for each loose object: remove it if it is packed", whatever the number of objects
                    # and the lookup batches they fall into (C16): no key may be left both loose and packed
                    left = sorted(r['hashkey'][:12] for r in state2.rows if r['hashkey'] in state2.loose)
                    if left:
                        _fail(world, 'clean-left-packed-loose-copies', f'{len(left)} objects are still loose although packed: {left[:5]}')
                if op['op'] == 'pack_loose':
                    # packing == "pack each loose object": afterwards every loose object has an index row
                    rows = {r['hashkey'] for r in state2.rows}
                    left = sorted(k[:12] for k in state2.loose if k not in rows)
                    if left:
                        _fail(world, 'pack-left-loose-objects-unpacked', f'{len(left)} loose objects were not packed: {left[:5]}')
            if 'meta' in en:
                check_meta_rows(world, side, handle, state)
            if 'validate' in en:
                # (with a progress callback validation also counts the objects of every pack beforehand)
                res = handle.validate(callback=(lambda action, value: None) if self.rng.random() < 0.3 else None)
                if not res.is_valid():
                    issues = {k: [x[:12] for x in v] for k, v in res.__dict__.items() if v}
                    _fail(world, 'validate-not-clean', f'{issues}')
            if en & {'monotone', 'dedup', 'compress', 'delete', 'import'}:
                blobs = pack_bytes(side.folder)
            if 'monotone' in en and op['op'] not in ('repack', 'repack_pack'):
                check_packs_monotone(world, side, (pre['state'], pre['bytes']), state, blobs)
            if 'dedup' in en:
                self.check_dedup(world, side, op, info, pre, state, blobs)
            if 'compress' in en:
                self.check_compress(world, side, op, info, pre, state, blobs)
            if 'delete' in en:
                self.check_delete(world, side, op, info, pre, state, blobs)
            if 'import' in en and op['op'] == 'import':
                self.check_import(world, side, op, info, pre, state, blobs)
            if 'fds' in en:
                self.check_fds(world, side)

    # -- C09 ---------------------------------------------------------------------------------------------------
    def check_dedup(self, world, side, op, info, pre, state, blobs):
        keys = [r['hashkey'] for r in state.rows]
        if len(keys) != len(set(keys)):
            _fail(world, 'key-indexed-twice', 'duplicate hashkey rows')
        if op['op'] == 'add_pack' and info.get('no_holes'):
            before = rawread.unreferenced_bytes(pre['state'])
            after = rawread.unreferenced_bytes(state)
            for name, unref in after.items():
                if unref > before.get(name, 0):
                    _fail(
                        world,
                        'no_holes-left-unreferenced-bytes',
                        f'pack {name}: unreferenced bytes {before.get(name, 0)} -> {unref}',
                    )
            pre_packed = {r['hashkey'] for r in pre['state'].rows}
            if all(k in pre_packed for k in info['added']):
                for name, blob in pre['bytes'].items():
                    if blobs.get(name) != blob:
                        _fail(world, 'pack-grew-for-known-content', f'pack {name} changed although all contents were packed')
                for name, blob in blobs.items():
                    if name not in pre['bytes'] and blob:
                        _fail(world, 'pack-grew-for-known-content', f'new pack {name} with {len(blob)} bytes')
            self.probes['no_holes_calls'] = self.probes.get('no_holes_calls', 0) + 1

    # -- C10 ---------------------------------------------------------------------------------------------------
    def check_compress(self, world, side, op, info, pre, state, blobs):
        del side, blobs
        pre_rows = {r['hashkey']: r for r in pre['state'].rows}
        name = op['op']
        mode = info.get('mode')
        if isinstance(mode, bool):
            mode = 'yes' if mode else 'no'

        def expect(row, want, why):
            if want is not None and row['compressed'] != want:
                _fail(world, 'compress-mode-not-honoured', f"{why}: key={row['hashkey'][:12]} compressed={row['compressed']}")

        if name == 'pack_loose':
            for row in state.rows:
                if row['hashkey'] not in pre_rows:
                    want = {'yes': True, 'no': False, 'keep': False, 'auto': None}[mode]
                    expect(row, want, f'pack_all_loose({mode})')
                    if mode == 'auto':
                        self.probes['auto_rows'] = self.probes.get('auto_rows', 0) + 1
        elif name == 'add_pack':
            for row in state.rows:
                if row['hashkey'] not in pre_rows:
                    expect(row, bool(op.get('compress', False)), f"add_pack(compress={op.get('compress', False)})")
        elif name in ('repack', 'repack_pack'):
            target_pack = None if name == 'repack' else int(info['pack'])
            for row in state.rows:
                old = pre_rows.get(row['hashkey'])
                if old is None:
                    _fail(world, 'repack-created-row', f"key={row['hashkey'][:12]}")
                if target_pack is not None and old['pack_id'] != target_pack:
                    if {k: old[k] for k in old if k != 'id'} != {k: row[k] for k in row if k != 'id'}:
                        _fail(world, 'repack-touched-other-pack', f"key={row['hashkey'][:12]} {old} -> {row}")
                    continue
                want = {'yes': True, 'no': False, 'keep': old['compressed'], 'auto': None}[mode]
                expect(row, want, f'{name}({mode})')
            if len(state.rows) != len(pre_rows):
                _fail(world, 'repack-lost-row', f'{len(pre_rows)} -> {len(state.rows)} rows')

    # -- C11 ---------------------------------------------------------------------------------------------------
    def check_delete(self, world, side, op, info, pre, state, blobs):
        if op['op'] == 'delete':
            for name in state.duplicates:
                if name.partition('.')[0] in info['deleted']:
                    _fail(world, 'duplicate-left-after-delete', name)
            # the stored form of every other object is untouched
            before = stored_bytes(pre['state'], pre['bytes'])
            after = stored_bytes(state, blobs)
            for key, val in after.items():
                if before.get(key) != val:
                    _fail(world, 'delete-changed-other-object', f'key={key[:12]}')
            for key in before:
                if key not in after and key not in info['deleted']:
                    _fail(world, 'delete-removed-unrequested', f'key={key[:12]}')
        if op['op'] == 'repack':
            check_tiling(world, side, state, blobs)
            if info.get('mode') == 'keep':
                before = stored_bytes(pre['state'], pre['bytes'])
                after = stored_bytes(state, blobs)
                if before != after:
                    bad = [k[:12] for k in before if before[k] != after.get(k)]
                    _fail(world, 'repack-keep-changed-stored-bytes', f'{bad}')

    # -- C14 ---------------------------------------------------------------------------------------------------
    def check_import(self, world, side, op, info, pre, state, blobs):
        src = world.sides[info['src']]
        if tree_digest(src.folder, skip_index=True) != pre['src_digest']:
            _fail(world, 'import-changed-source', 'source folder bytes changed')
        if rawread.read_state(src.folder).rows != pre['src_rows']:
            _fail(world, 'import-changed-source', 'source index rows changed')
        before = rawread.unreferenced_bytes(pre['state'])
        after = rawread.unreferenced_bytes(state)
        for name, unref in after.items():
            if unref > before.get(name, 0):
                _fail(world, 'import-wrote-known-object-again', f'pack {name}: unreferenced {before.get(name, 0)} -> {unref}')
        pre_rows = {r['hashkey']: r for r in pre['state'].rows}
        post_rows = {r['hashkey']: r for r in state.rows}
        for key, old in pre_rows.items():
            new = post_rows.get(key)
            if new is None or {k: old[k] for k in old} != {k: new[k] for k in new}:
                _fail(world, 'import-touched-existing-row', f'key={key[:12]} {old} -> {new}')
        same_hash = src.hash_type == side.hash_type
        for key, (ino, mtime) in pre['dst_loose_stat'].items():
            path = state.loose.get(key)
            if path is None:
                _fail(world, 'import-removed-loose', f'key={key[:12]}')
            stat = os.stat(path)
            if (stat.st_ino, stat.st_mtime_ns) != (ino, mtime):
                _fail(world, 'import-rewrote-loose', f'key={key[:12]}')
        if same_hash:
            held = set(info['dst_before'])
            for key in info['requested']:
                if key in held and key in post_rows and key not in pre_rows:
                    _fail(world, 'import-wrote-known-object-again', f'key={key[:12]} held (loose) before, now also packed')
            for old in info['mapping']:
                if old in held:
                    _fail(world, 'import-wrote-known-object-again', f'mapping mentions already-held key {old[:12]}')

    # -- C18 (descriptor census) -------------------------------------------------------------------------------
    def check_fds(self, world, side):
        del side
        census = fd_census(world.root)
        nhandles = sum(len(s.handles) for s in world.sides.values())
        bad = [p for p in census if not os.path.basename(p).startswith('packs.idx')]
        if bad:
            _fail(world, 'fd-leak', f'descriptors open on non-index files between operations: {sorted(bad)[:5]}')
        if len(census) > 3 * 2 * nhandles:
            _fail(world, 'fd-leak', f'{len(census)} index descriptors for {nhandles} handles')
        self.probes['fd_max'] = max(self.probes.get('fd_max', 0), len(census))


def fd_census(root):
    """Targets of the process' descriptors that lie inside ``root``."""
    out = []
    root = os.path.realpath(root)
    for name in os.listdir('/proc/self/fd'):
        try:
            target = os.readlink(f'/proc/self/fd/{name}')
        except OSError:
            continue
        if target.startswith(root + '/') or target == root:
            out.append(target)
    return out
