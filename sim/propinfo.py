"""Per-property batch parameters and evidence texts."""

REAL_VS_STUB = {
    'real': [
        'all of disk_objectstore imported from the working tree',
        'SQLAlchemy + the SQLite C library and its own file I/O',
        'zlib, hashlib',
        'the kernel file system (tmpfs under /dev/shm), real file descriptors',
    ],
    'stub_or_model': [
        'process scheduling: actor threads released one at a time by the seeded scheduler at every seam call',
        'process death: folder snapshot taken at a seam boundary without flushing library buffers',
        'power loss: fsync ledger keyed by inode, unsynced file data dropped from the snapshot',
        'I/O errors: raised by the seam instead of / after the real call',
        'rsync/ssh/coreutils of the backup: in-process copier with per-file and per-chunk yield points, cross-checked against '
        '/usr/bin/rsync on generated trees (tools/rsync_fidelity.py); 8 % (quick) / 20 % (thorough) of the C15 runs use the real '
        '/usr/bin/rsync and coreutils through the unmodified BackupManager, one scheduling point per external call',
        'uuid4, directory listing order: seeded',
    ],
    'trusted_not_simulated': [
        "SQLite's internal durability and atomic commit",
        'config.json and directory entries are durable once created',
    ],
}

DEFAULT_ASSUMPTIONS = [
    'sampled seeds, not a proof: a clean batch is evidence only for the explored histories / schedules / fault positions',
    'interleavings and fault positions are at the granularity of Python-visible calls (file methods, os.*, SQL statements, COMMIT)',
    "SQLite's own durability is trusted, as the property texts do",
]


def _p(level, rule, quick_runs, **kw):
    out = {'level': level, 'rule': rule, 'quick_runs': quick_runs}
    out.update(kw)
    return out


HIST_RULE = (
    'seeded swarm-generated operation histories (3-14 ops quick, up to 42 thorough) over random container '
    'configurations, content pools and (in a fraction of runs) lowered private chunk/batch constants; the oracle runs '
    'after every step. A run is non-trivial if it executed at least 2 distinct operation kinds and at least 2 checked steps; '
    'distinct = distinct digest of (operation sequence, abstract states reached, seam event log)'
)

INFO = {
    'C01': _p('exploration', 'write paths x configurations x contents (incl. short-read streams, chunk-size knobs): ' + HIST_RULE, 800),
    'C02': _p('exploration', 'all views vs key->bytes model after every step: ' + HIST_RULE, 900),
    'C03': _p('exploration', 'raw sqlite3+zlib reader vs model after every step: ' + HIST_RULE, 1200),
    'C04': _p(
        'exploration',
        'seeded schedules of writers / readers / one packer at seam-call granularity, acked-history oracle; a run is '
        'non-trivial if some reader seam call fell between a packer COMMIT and the end of its unlink loop or a reader '
        'took the re-query fallback; distinct = distinct schedule digest',
        4000,
    ),
    'C05': _p(
        'fault_enumeration',
        'pre-state history + one victim operation; a crash image (folder copy without flushing library buffers) at '
        'boundaries before mutating seam calls of the victim (all in thorough, seeded sample in quick); evaluations = '
        'images verified; non-trivial = boundary strictly inside the victim; distinct = distinct (victim kind, seam call '
        'kind at the boundary, image state digest)',
        1000,
    ),
    'C06': _p(
        'fault_enumeration',
        'as C05 with default fsync settings and the adversarial power-loss image (every regular data file cut back to '
        'the bytes its inode held at its last fsync); evaluations = images verified',
        1000,
    ),
    'C07': _p(
        'exploration',
        'stream programs of read/seek/tell over objects in every storage form with sentinel neighbours, stepped in '
        'lock-step with io.BytesIO; optionally a cleaner between steps; non-trivial = program has >= 3 steps incl. a seek; '
        'distinct = distinct (form, program, outcome) digest',
        12000,
    ),
    'C08': _p(
        'exploration',
        'sequential histories over 2-4 handles on one folder, every handle queried after every step; non-trivial = '
        'some handle queried before another handle packed/cleaned; distinct = distinct history digest',
        2500,
    ),
    'C09': _p('exploration', 'recurrence-biased histories, dedup / no_holes accounting: ' + HIST_RULE, 900),
    'C10': _p('exploration', 'chained compression modes, affected-row diff: ' + HIST_RULE, 800),
    'C11': _p('exploration', 'delete subsets (+stray duplicates) then repack tiling: ' + HIST_RULE, 900),
    'C12': _p(
        'exploration',
        '(a) validate() after every step of seeded histories; (b) single damages (bit flips, truncations, appended '
        'bytes, index field perturbations) on small containers, ground truth by reading every object; non-trivial = '
        'effective damage or >= 2 checked steps; distinct = distinct behaviour digest',
        700,
    ),
    'C13': _p(
        'exploration',
        'repack-free histories over 1-3 handles, pack bytes compared before/after every step (half of the runs); a quarter: '
        'kill inside a repack-free victim, new process on the crash image, 2-4 more operations; a quarter: one seam call of '
        'the victim fails, the same handle carries on with 2-4 more operations (append-only clauses always, fill-order '
        'clauses unless the failing call carried pack data); ' + HIST_RULE,
        1000,
    ),
    'C14': _p('exploration', 'two containers, import matrix (iterable kinds, callback, memory budget, hash types): ' + HIST_RULE, 900),
    'C15': _p(
        'exploration',
        'backup actor (real backup_container; in-process rsync stub with per-file/per-chunk yield points, the real rsync in '
        'a fraction of the runs) scheduled '
        'against writers and one pack-writer; non-trivial = a pack-writer COMMIT or loose unlink fell between the first and '
        'last copy step; distinct = distinct schedule digest',
        1500,
    ),
    'C16': _p(
        'exploration',
        'histories with lowered SQL batch / strategy thresholds + bulk-vs-single comparison cases + adjunct helper '
        'enumeration; ' + HIST_RULE,
        800,
        run_limit_s=400,
    ),
    'C17': _p(
        'fault_enumeration',
        'one injected I/O fault (EIO, ENOSPC after partial write, lost close, EPERM, SQL OperationalError) at the k-th '
        'seam call of a victim operation; evaluations = fault positions executed; non-trivial = the fault actually fired '
        'inside the victim; distinct = distinct (victim, call kind, fault kind, outcome) digest',
        400,
    ),
    'C18': _p(
        'exploration',
        'descriptor census after every step and after close; open-file table during bulk reads; lazily opened inputs; '
        'request sizes and tracemalloc peak on 2/8/24 MiB objects; ' + HIST_RULE,
        600,
    ),
}
