"""Independent reader of a container folder: sqlite3 + byte slices + zlib only.

Deliberately imports nothing from disk_objectstore: it implements the manual recovery recipe of
docs/pages/design.md ("Long-term support of the data") and is the oracle of C03 and of all crash / fault images.
Locations are *observed*, never predicted.
"""

from __future__ import annotations

import hashlib
import json
import os
import sqlite3
import zlib

HEX = set('0123456789abcdef')


class RawState:  # pylint: disable=too-few-public-methods
    def __init__(self):
        self.config = {}
        self.rows = []  # dicts
        self.pack_files = {}  # name -> size (only all-digit names and '-1')
        self.other_pack_entries = []  # lock files etc.
        self.loose = {}  # key -> path
        self.duplicates = []
        self.sandbox = []
        self.index_error = None


class LayoutBroken(Exception):
    """A folder or file that every initialised container has (config.json, packs/, loose/, duplicates/, sandbox/) is
    gone: no public operation may remove it, so the engines report this as a violation, not as a harness error."""


def read_state(folder) -> RawState:
    try:
        return _read_state(folder)
    except FileNotFoundError as exc:
        name = os.path.relpath(exc.filename, str(folder)) if exc.filename else '?'
        if name in ('config.json', 'packs', 'loose', 'duplicates', 'sandbox'):
            raise LayoutBroken(f'the container lost its {name!r} entry') from exc
        raise


def _read_state(folder) -> RawState:
    folder = str(folder)
    state = RawState()
    with open(os.path.join(folder, 'config.json'), encoding='utf8') as handle:
        state.config = json.load(handle)
    index = os.path.join(folder, 'packs.idx')
    try:
        conn = sqlite3.connect(index, timeout=1)
        try:
            cur = conn.execute('SELECT id, hashkey, compressed, size, offset, length, pack_id FROM db_object ORDER BY id')
            for rid, key, comp, size, offset, length, pack_id in cur:
                state.rows.append(
                    {
                        'id': rid,
                        'hashkey': key,
                        'compressed': bool(comp),
                        'size': size,
                        'offset': offset,
                        'length': length,
                        'pack_id': pack_id,
                    }
                )
        finally:
            conn.close()
    except sqlite3.Error as exc:
        state.index_error = repr(exc)
    packdir = os.path.join(folder, 'packs')
    for name in sorted(os.listdir(packdir)):
        path = os.path.join(packdir, name)
        if name.isdigit() or name == '-1':
            state.pack_files[name] = os.stat(path).st_size
        else:
            state.other_pack_entries.append(name)
    prefix_len = state.config['loose_prefix_len']
    loosedir = os.path.join(folder, 'loose')
    for first in sorted(os.listdir(loosedir)):
        if prefix_len:
            if len(first) != prefix_len or not set(first) <= HEX:
                continue
            sub = os.path.join(loosedir, first)
            if not os.path.isdir(sub):
                continue
            for second in sorted(os.listdir(sub)):
                key = first + second
                if set(key) <= HEX:
                    state.loose[key] = os.path.join(sub, second)
        elif set(first) <= HEX:
            state.loose[first] = os.path.join(loosedir, first)
    state.duplicates = sorted(os.listdir(os.path.join(folder, 'duplicates')))
    state.sandbox = sorted(os.listdir(os.path.join(folder, 'sandbox')))
    return state


def _hash(hash_type, data):
    return hashlib.new(hash_type, data).hexdigest()


def row_bytes(folder, row, pack_cache=None):
    """Return (content or None, problem or None) for one index row, using slice + zlib only."""
    path = os.path.join(str(folder), 'packs', str(row['pack_id']))
    if pack_cache is not None and path in pack_cache:
        blob = pack_cache[path]
    else:
        try:
            with open(path, 'rb') as handle:
                blob = handle.read()
        except FileNotFoundError:
            return None, f"row-pack-missing key={row['hashkey'][:12]} pack={row['pack_id']}"
        if pack_cache is not None:
            pack_cache[path] = blob
    offset, length = row['offset'], row['length']
    if offset < 0 or length < 0 or offset + length > len(blob):
        return None, (
            f"row-out-of-file key={row['hashkey'][:12]} pack={row['pack_id']} "
            f'offset={offset} length={length} filesize={len(blob)}'
        )
    chunk = blob[offset : offset + length]
    if row['compressed']:
        dec = zlib.decompressobj()
        try:
            data = dec.decompress(chunk)
        except zlib.error as exc:
            return None, f"row-zlib-error key={row['hashkey'][:12]} {exc}"
        if not dec.eof or dec.unused_data:
            return None, f"row-zlib-not-exact key={row['hashkey'][:12]} eof={dec.eof} unused={len(dec.unused_data)}"
        return data, None
    if row['size'] != row['length']:
        return chunk, f"row-size-ne-length key={row['hashkey'][:12]} size={row['size']} length={row['length']}"
    return chunk, None


def verify(folder, model=None, allow_repack_pack=False, state=None, check_loose=True):
    """Return (problems, observed) where observed maps key -> {'row': row|None, 'loose': bool}.

    ``model``: dict key -> bytes. If given, the set of visible keys must equal the model's keys and every
    content must equal the model's bytes (hash equality is checked in any case).
    """
    folder = str(folder)
    state = state or read_state(folder)
    problems = []
    if state.index_error:
        problems.append(f'index-unreadable {state.index_error}')
    hash_type = state.config['hash_type']
    pack_cache = {}
    seen = {}
    by_pack = {}
    for row in state.rows:
        key = row['hashkey']
        if key in seen:
            problems.append(f'key-indexed-twice key={key[:12]}')
        seen[key] = row
        if row['pack_id'] < 0 and not (allow_repack_pack and row['pack_id'] == -1):
            problems.append(f"row-negative-pack key={key[:12]} pack={row['pack_id']}")
        data, prob = row_bytes(folder, row, pack_cache)
        if prob:
            problems.append(prob)
        if data is not None:
            if _hash(hash_type, data) != key:
                problems.append(f'row-hash-mismatch key={key[:12]}')
            if len(data) != row['size']:
                problems.append(f"row-size-mismatch key={key[:12]} size={row['size']} actual={len(data)}")
            if model is not None and key in model and data != model[key]:
                problems.append(f'row-bytes-differ-from-model key={key[:12]}')
        by_pack.setdefault(row['pack_id'], []).append(row)
    for pack_id, rows in by_pack.items():
        rows = sorted(rows, key=lambda r: (r['offset'], r['length']))
        end = 0
        for row in rows:
            if row['offset'] < end:
                problems.append(f"rows-overlap pack={pack_id} key={row['hashkey'][:12]} offset={row['offset']} < {end}")
            end = max(end, row['offset'] + row['length'])
    observed = {key: {'row': row, 'loose': False} for key, row in seen.items()}
    for key, path in state.loose.items():
        observed.setdefault(key, {'row': None, 'loose': False})['loose'] = True
        if check_loose:
            with open(path, 'rb') as handle:
                data = handle.read()
            if _hash(hash_type, data) != key:
                problems.append(f'loose-hash-mismatch key={key[:12]} len={len(data)}')
            elif model is not None and key in model and data != model[key]:
                problems.append(f'loose-bytes-differ-from-model key={key[:12]}')
    if model is not None:
        visible = set(observed)
        missing = set(model) - visible
        extra = visible - set(model)
        for key in sorted(missing):
            problems.append(f'model-key-not-on-disk key={key[:12]}')
        for key in sorted(extra):
            problems.append(f'disk-key-not-in-model key={key[:12]}')
    return problems, observed


def totals(state: RawState):
    """Numbers the library should report in count_objects / get_total_size, from raw observations."""
    return {
        'packed': len(state.rows),
        'loose': len(state.loose),
        'pack_files': sum(1 for name in state.pack_files if name != '-1'),
        'total_size_packed': sum(r['size'] for r in state.rows),
        'total_size_packed_on_disk': sum(r['length'] for r in state.rows),
        'total_size_packfiles_on_disk': sum(size for name, size in state.pack_files.items() if name != '-1'),
        'total_size_loose': sum(os.stat(p).st_size for p in state.loose.values()),
    }


def unreferenced_bytes(state: RawState):
    """pack name -> file size minus the sum of the lengths of its rows."""
    out = {}
    for name, size in state.pack_files.items():
        out[name] = size - sum(r['length'] for r in state.rows if str(r['pack_id']) == name)
    return out
