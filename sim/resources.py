"""Engine R (C18): open-file table during bulk reads, lazily opened inputs, chunked I/O and memory vs object size."""

from __future__ import annotations

import hashlib
import json
import os
import random
import tracemalloc
from pathlib import Path

from . import gen
from .core import SIM, HarnessError, install
from .hist import classify_exception, drop_scratch, new_scratch, short_tb
from .oracles import fd_census
from .world import DEFAULT_KNOBS, Knobs, Violation, World, make_config, make_pool_specs

MIB = 1024 * 1024
STREAM_PATHS = ['add_streamed', 'add_streamed_to_pack', 'add_streamed_to_pack_z', 'pack_all_loose', 'pack_all_loose_z', 'repack', 'validate', 'chunked_read', 'chunked_read_z', 'import_streamed', 'add_streamed_dup', 'loosen_z', 'seek_forward_z', 'add_streamed_to_pack_nh', 'pack_all_loose_auto', 'import_streamed_z', 'import_streamed_same_z', 'import_streamed_loose', 'import_streamed_same']


class PatternStream:
    """A seekable stream of ``size`` bytes generated on the fly (never materialised)."""

    mode = 'rb'
    closed = False

    def __init__(self, size, seed, compressible=False):
        self.size = size
        self.pos = 0
        rng = random.Random(seed)
        if compressible == 'semi':
            # about 4 bits of entropy per byte: compresses to roughly half, so the *compressed* form of a large object
            # is still much longer than the decompresser's 512 KiB chunk. A long non-repeating block (1 MiB) so that
            # zlib's 32 KiB window cannot simply reference the previous block.
            if seed % 2:
                self.block = bytes(rng.choices(b'0123456789abcdef', k=1024 * 1024))
            else:
                # text-like: words from a vocabulary (many short LZ77 matches, as in real text or JSON)
                vocab = [bytes(rng.choices(b'abcdefghijklmnopqrstuvwxyz', k=rng.randint(3, 10))) for _ in range(2000)]
                out = bytearray()
                while len(out) < 1024 * 1024:
                    out += rng.choice(vocab) + b' '
                self.block = bytes(out[: 1024 * 1024])
        elif compressible:
            self.block = b'abcdefgh' * 8192
        else:
            self.block = rng.randbytes(65536)

    def read(self, n=-1):
        if n is None or n < 0:
            n = self.size - self.pos
        n = min(n, self.size - self.pos)
        out = bytearray()
        while len(out) < n:
            off = (self.pos + len(out)) % len(self.block)
            out += self.block[off : off + (n - len(out))]
        self.pos += n
        return bytes(out)

    def seek(self, target, whence=0):
        if whence == 1:
            target += self.pos
        elif whence == 2:
            target += self.size
        self.pos = max(0, min(self.size, target))
        return self.pos

    def tell(self):
        return self.pos

    @staticmethod
    def seekable():
        return True

    def digest(self, hash_type):
        hasher = hashlib.new(hash_type)
        saved = self.pos
        self.pos = 0
        while True:
            chunk = self.read(65536)
            if not chunk:
                break
            hasher.update(chunk)
        self.pos = saved
        return hasher.hexdigest()


def generate(prop, seed, tier='quick', sub='bulkread'):
    rng = random.Random(seed)
    case = {'engine': 'R', 'prop': prop, 'seed': seed, 'tier': tier, 'sub': sub, 'knobs': dict(DEFAULT_KNOBS), 'config': make_config(rng)}
    if sub in ('bulkread', 'lazy'):
        pool = make_pool_specs(rng, n_small=10)
        pool = [[k, min(n, 6000), s] for k, n, s in pool]
        case['pool'] = pool
        case['config']['pack_size_target'] = rng.choice([50, 500, 3000, 4 * 1024**3])
        opts = gen.make_opts(rng, len(pool))
        weights = {'add_loose': 5, 'add_pack': 5, 'pack_loose': 2, 'loosen': 2, 'clean': 0.5}
        case['ops'] = gen.gen_history(rng, len(pool), rng.randint(3, 10), weights=weights, opts=opts, with_b=False, always=('add_pack', 'add_loose'))
        case['reads'] = [
            {
                'keys': [rng.randrange(64) for _ in range(rng.randint(1, 12))],
                'absent': rng.choice([0, 1]),
                'skip': rng.random() < 0.5,
                'stop_after': rng.choice([None, None, 0, 1, 3]),
                'seek': rng.random() < 0.5,
                'seed': rng.randrange(1 << 20),
            }
            for _ in range(rng.randint(1, 4))
        ]
        case['lazy'] = {
            'cs': [rng.randrange(len(pool)) for _ in range(rng.randint(1, 8))],
            'compress': rng.random() < 0.5,
            'no_holes': rng.random() < 0.5,
            'read_twice': rng.random() < 0.5,
        }
    else:
        case['path'] = rng.choice(STREAM_PATHS)
        case['sizes'] = [2 * MIB, 8 * MIB, 24 * MIB] if tier == 'thorough' or rng.random() < 0.35 else [2 * MIB, 8 * MIB]
        case['config']['pack_size_target'] = 4 * 1024**3
        case['pool'] = [['empty', 0, 0]]
        case['ops'] = []
    return case


def container_files_open(prefix='c/'):
    return [rel for rel in SIM.data_files_open() if rel.startswith(prefix) and (rel.startswith(prefix + 'packs/') or rel.startswith(prefix + 'loose/'))]


def run_bulkread(world, side, case, probes):
    handle = side.handles[0]
    keys = sorted(side.model)
    from .world import absent_key  # pylint: disable=import-outside-toplevel

    for num, read in enumerate(case['reads']):
        request = [keys[j % len(keys)] for j in read['keys']] if keys else []
        request += [absent_key(side.hash_type, 900 + i) for i in range(read['absent'])]
        random.Random(read['seed']).shuffle(request)
        yielded = 0

        def check(where, current_key=None, stream=None):
            opened = container_files_open()
            allowed = 1
            if stream is not None and getattr(stream, '_use_uncompressed_stream', False):
                allowed = 2  # the pack plus the loose cache of the *current* stream
                probes['loose_cache_open'] = probes.get('loose_cache_open', 0) + 1
            if len(opened) > allowed:
                raise Violation('too-many-open-files', f'bulk read #{num} {where} (key {str(current_key)[:10]}): open = {opened}')
            probes['open_checks'] = probes.get('open_checks', 0) + 1
            probes['max_open'] = max(probes.get('max_open', 0), len(opened))

        with handle.get_objects_stream_and_meta(request, skip_if_missing=read['skip']) as triplets:
            gen_obj = triplets
            for key, stream, meta in gen_obj:
                check('at yield', key, stream)
                if stream is not None:
                    if read['seek'] and meta.size:
                        stream.seek(0, 2)
                        check('after seek(0,2)', key, stream)
                        stream.seek(0)
                    data = stream.read(3)
                    check('after read', key, stream)
                    data += stream.read()
                    if data != side.model[key]:
                        raise Violation('wrong-bytes', f'bulk read key={key[:10]}')
                yielded += 1
                if read['stop_after'] is not None and yielded > read['stop_after']:
                    gen_obj.close()  # consumer stops early
                    probes['early_stops'] = probes.get('early_stops', 0) + 1
                    break
        left = container_files_open()
        if left and read['stop_after'] is not None:
            # A consumer that stops early while the current stream has switched to its loose cache leaves that one
            # file open until the stream object is dropped (the generator closes it only after the yield returns).
            # C18 does not promise more than "no accumulation": drop the references, then nothing may be open.
            probes['cache_open_until_stream_dropped'] = probes.get('cache_open_until_stream_dropped', 0) + 1
            key = stream = meta = gen_obj = triplets = None  # noqa: F841
            import gc  # pylint: disable=import-outside-toplevel

            gc.collect()
            left = container_files_open()
        if left:
            raise Violation('file-left-open-after-bulk-read', f'bulk read #{num}: {left}')


def run_lazy(world, side, case, probes):
    from disk_objectstore.utils import LazyOpener  # pylint: disable=import-outside-toplevel

    handle = side.handles[0]
    spec = case['lazy']
    datas = [world.content(c) for c in spec['cs']]
    lazies = [LazyOpener(Path(world.new_input_file(d))) for d in datas]
    state = {'max': 0, 'checks': 0}

    def hook(event):
        del event
        nopen = sum(1 for rel in SIM.data_files_open() if rel.startswith('inputs/'))
        state['max'] = max(state['max'], nopen)
        state['checks'] += 1
        return None

    SIM.hooks.append(hook)
    try:
        keys = handle.add_streamed_objects_to_pack(
            lazies, open_streams=True, compress=spec['compress'], no_holes=spec['no_holes'], no_holes_read_twice=spec['read_twice']
        )
    finally:
        SIM.hooks.remove(hook)
    for key, data in zip(keys, datas):
        if key != hashlib.new(side.hash_type, data).hexdigest():
            raise Violation('wrong-key', f'lazy add returned {key}')
        side.model[key] = data
    if state['max'] > 1:
        raise Violation('lazy-inputs-open-together', f"{state['max']} lazily opened inputs were open at the same time")
    left = [rel for rel in SIM.data_files_open() if rel.startswith('inputs/')]
    if left:
        raise Violation('lazy-input-left-open', f'{left}')
    for lazy in lazies:
        if lazy._fhandle is not None:  # pylint: disable=protected-access
            raise Violation('lazy-input-left-open', f'{lazy.path}')
    probes['lazy_inputs'] = probes.get('lazy_inputs', 0) + len(lazies)
    probes['lazy_max_open'] = max(probes.get('lazy_max_open', 0), state['max'])


def measure(func):
    """Run func() with request-size watch and tracemalloc; return (max single I/O request, peak bytes)."""
    SIM.io_watch = True
    SIM.max_io = 0
    tracemalloc.start()
    tracemalloc.reset_peak()
    base = tracemalloc.get_traced_memory()[0]
    try:
        func()
        peak = tracemalloc.get_traced_memory()[1] - base
    finally:
        tracemalloc.stop()
        SIM.io_watch = False
    return SIM.max_io, peak


def run_chunked(lib, world, case, probes):  # pylint: disable=too-many-locals,too-many-statements
    from disk_objectstore.utils import CompressMode  # pylint: disable=import-outside-toplevel

    path = case['path']
    results = []
    for idx, size in enumerate(case['sizes']):
        folder = os.path.join(world.root, f's{idx}')
        cont = lib.Container(folder)
        cont.init_container(**case['config'])
        other = None
        try:
            # (newline-free contents for the duplicate add: the library re-hashes the existing loose file)
            compressible = path.endswith('_z') or path in ('repack', 'validate', 'add_streamed_dup', 'pack_all_loose_auto')
            if compressible and case['seed'] % 3 and not path.startswith('import_streamed'):
                compressible = 'semi'
            stream = PatternStream(size, case['seed'] + idx, compressible=compressible)
            key = stream.digest(case['config']['hash_type'])
            stream.seek(0)

            def prepare_loose():
                with SIM.quiet():
                    assert cont.add_streamed_object(PatternStream(size, case['seed'] + idx, compressible=compressible)) == key

            def prepare_packed(compress):
                with SIM.quiet():
                    got = cont.add_streamed_object_to_pack(PatternStream(size, case['seed'] + idx, compressible=compressible), compress=compress)
                    assert got == key

            def chunked_read():
                with cont.get_object_stream(key) as handle:
                    total = 0
                    # a few tiny reads first (a consumer parsing a header), then ordinary chunked reading
                    peek = random.Random(case['seed'])
                    for _ in range(peek.choice([0, 3, 20, 48])):
                        total += len(handle.read(peek.choice([1, 1, 1, 2, 3, 8])))
                    while True:
                        chunk = handle.read(65536)
                        if not chunk:
                            break
                        total += len(chunk)
                if total != size:
                    raise Violation('wrong-size', f'chunked read returned {total} of {size} bytes')

            if path == 'add_streamed':
                func = lambda: cont.add_streamed_object(stream)  # noqa: E731
            elif path == 'add_streamed_dup':
                # the same content again while the first copy is still loose: the existing file is verified, not trusted
                prepare_loose()
                func = lambda: cont.add_streamed_object(stream)  # noqa: E731
            elif path == 'seek_forward_z':
                prepare_packed(True)

                def func():
                    # skipping forward in a compressed object decompresses, in chunks, what lies in between
                    with cont.get_object_stream(key) as handle:
                        handle.read(3)
                        if handle.seek(size - 10) != size - 10 or len(handle.read()) != 10:
                            raise Violation('wrong-size', 'seek forward to 10 bytes before the end, then read()')

            elif path == 'add_streamed_to_pack_nh':
                func = lambda: cont.add_streamed_object_to_pack(stream, no_holes=True, no_holes_read_twice=True)  # noqa: E731
            elif path == 'pack_all_loose_auto':
                prepare_loose()
                func = lambda: cont.pack_all_loose(compress=CompressMode.AUTO)  # noqa: E731
            elif path == 'loosen_z':
                prepare_packed(True)
                func = lambda: cont.loosen_object(key)  # noqa: E731
            elif path in ('add_streamed_to_pack', 'add_streamed_to_pack_z'):
                func = lambda: cont.add_streamed_object_to_pack(stream, compress=path.endswith('_z'))  # noqa: E731
            elif path in ('pack_all_loose', 'pack_all_loose_z'):
                prepare_loose()
                func = lambda: cont.pack_all_loose(compress=CompressMode.YES if path.endswith('_z') else CompressMode.NO)  # noqa: E731
            elif path == 'repack':
                prepare_packed(False)
                func = lambda: cont.repack(compress_mode=CompressMode.YES)  # noqa: E731
            elif path == 'validate':
                prepare_packed(True)
                prepare_loose()

                def func():
                    if not cont.validate().is_valid():
                        raise Violation('validate-not-clean', 'large object')

            elif path in ('chunked_read', 'chunked_read_z'):
                prepare_packed(path.endswith('_z'))
                func = chunked_read
            elif path.startswith('import_streamed'):
                # source form: packed plain / packed compressed (the stored length of a very compressible object is far
                # below the memory budget, its size far above) / loose; destination with the same or another hash type
                if path.endswith('_loose'):
                    prepare_loose()
                else:
                    prepare_packed(path.endswith('_z'))
                other = lib.Container(os.path.join(world.root, f'd{idx}'))
                hash_type = case['config']['hash_type']
                if '_same' not in path:
                    hash_type = 'sha1' if hash_type == 'sha256' else 'sha256'
                other.init_container(**dict(case['config'], hash_type=hash_type))
                func = lambda: other.import_objects([key], cont, target_memory_bytes=MIB, compress=bool(case['seed'] % 2))  # noqa: E731
            else:
                raise HarnessError(path)
            max_io, peak = measure(func)
            results.append((size, max_io, peak))
            if max_io > MIB:
                raise Violation('unbounded-io-request', f'{path} on a {size // MIB} MiB object issued a single read/write of {max_io} bytes')
            with SIM.quiet():
                target = other if other is not None else cont
                if not path.startswith('import_streamed'):
                    meta = target.get_object_meta(key)
                    if meta.size != size:
                        raise Violation('wrong-size', f'{path}: meta.size={meta.size} expected {size}')
        finally:
            cont.close()
            if other is not None:
                other.close()
        import shutil  # pylint: disable=import-outside-toplevel

        shutil.rmtree(folder, ignore_errors=True)
        shutil.rmtree(os.path.join(world.root, f'd{idx}'), ignore_errors=True)
    small = results[0][2]
    large = results[-1][2]
    probes['peak_small_kib'] = small // 1024
    probes['peak_large_kib'] = large // 1024
    probes['max_io_request'] = max(r[1] for r in results)
    if large - small > 2 * MIB:
        raise Violation(
            'memory-grows-with-object-size',
            f'{path}: tracemalloc peak {small // 1024} KiB at {results[0][0] // MIB} MiB vs {large // 1024} KiB at {results[-1][0] // MIB} MiB',
        )
    if large > 6 * MIB:
        raise Violation('memory-peak-too-high', f'{path}: tracemalloc peak {large // 1024} KiB')


def execute(case):  # pylint: disable=too-many-statements
    lib = install()
    seed = case['seed']
    root = new_scratch()
    SIM.reset(root, seed=seed, fs_rng=random.Random(seed + 17))
    result = {'ok': True, 'violation': None, 'error': None}
    world = None
    probes = {}
    try:
        with Knobs(case.get('knobs')):
            world = World(root, case, None)
            try:
                if case['sub'] == 'chunked':
                    run_chunked(lib, world, case, probes)
                else:
                    side = world.create_side('c', case['config'])
                    world.run(case['ops'])
                    if case['sub'] == 'bulkread':
                        run_bulkread(world, side, case, probes)
                    else:
                        run_lazy(world, side, case, probes)
                world.close_all()
                left = fd_census(root)
                if left:
                    raise Violation('fd-leak-after-close', f'{sorted(left)[:6]}')
            except Violation as exc:
                result['ok'] = False
                result['violation'] = exc.as_dict()
            except HarnessError:
                raise
            except Exception as exc:  # pylint: disable=broad-except
                if classify_exception(exc) == 'library':
                    result['ok'] = False
                    result['violation'] = {'class': 'unexpected-exception:' + type(exc).__name__, 'detail': f'{exc!r}\n{short_tb(exc)}'[:2000], 'step': None}
                else:
                    raise
    except Exception as exc:  # pylint: disable=broad-except
        result['ok'] = False
        result['error'] = f'{exc!r}\n{short_tb(exc, 10)}'
    finally:
        if world is not None:
            world.close_all()
        result.update(
            {
                'digest': SIM.digest.hexdigest(),
                'steps': SIM.step,
                'evals': 1,
                'nontrivial': True,
                'behaviour': hashlib.sha1(json.dumps([case['sub'], case.get('path'), case.get('reads'), case.get('lazy')]).encode() + SIM.digest.digest()).hexdigest()[:16],
                'ops': {'sub_' + case['sub']: 1, **({'path_' + case['path']: 1} if case.get('path') else {})},
                'faults': {},
                'probes': probes,
                'kinds': dict(SIM.kinds),
            }
        )
        SIM.reset(None)
        drop_scratch(root)
    return result


def shrink(case, budget_s=60.0):
    from . import shrink as shr  # pylint: disable=import-outside-toplevel

    return shr.shrink_case(case, execute, list_keys=('reads', 'ops'), budget_s=budget_s, simplify=None)
