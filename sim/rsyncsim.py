"""In-process stand-in for the external programs of the backup (rsync, mkdir, find, mv, ln, rm).

``SimBackupManager`` overrides exactly the methods through which ``BackupManager`` reaches other programs. The copier
has a yield point per call (file-list scan), per file and per 4 KiB chunk, so that the scheduler can place other
actors' steps anywhere inside a backup.

Copier semantics (cross-checked against /usr/bin/rsync by tools/rsync_fidelity.py):
  * the file list (names + kinds) is taken at the start of each call;
  * per file the length is read when the file is opened and that many bytes are copied to a temporary name, then renamed;
  * a listed file that vanished makes the call fail (rsync exit code 24 -> BackupError);
  * --include / --exclude rules in order, first match wins, with rsync's pattern semantics (anchoring '/', directory-only
    trailing '/', '*' vs '**', basename vs whole-path matching); an option the stub does not model is a harness error,
    never ignored;
  * an existing destination file / --link-dest candidate is reused iff it has the same length and the same mtime - rsync's
    quick check. The simulation runs far faster than the timestamp granularity of the file system, so real mtimes cannot
    be used: before every transfer (and before the SQLite dump) ``CLOCK.stamp_tree`` gives every source file a *logical*
    mtime that changes exactly when its content changes (table keyed by inode, content hash -> tick); copies preserve it,
    as ``rsync -a`` does. Code that copies or forges timestamps therefore behaves as it would against the real program;
  * nothing is deleted at the destination.
"""

from __future__ import annotations

import fnmatch
import hashlib
import os
import re
import shutil
from pathlib import Path

from .core import SIM

CHUNK = 4096


class RsyncFailed(Exception):
    pass


class LogicalMtime:
    """mtime as a faithful function of content: a file gets a new (larger) logical mtime whenever its bytes changed."""

    def __init__(self):
        self.reset()

    BASE = 1_000_000_000  # logical timestamps live in 2001, far away from any real mtime of the run

    def reset(self):
        self.table = {}
        self.tick = self.BASE

    def stamp(self, path):
        try:
            stat = os.stat(path)
            with open(path, 'rb') as handle:
                digest = hashlib.sha1(handle.read()).digest()
        except OSError:
            return
        key = (stat.st_dev, stat.st_ino)
        entry = self.table.get(key)
        if entry is None and stat.st_mtime_ns % 10**9 == 0 and self.BASE < stat.st_mtime_ns // 10**9 <= self.tick:
            # an unknown file that already carries a logical timestamp: somebody copied the timestamp along with
            # (or onto) the file - keep it, this is exactly what the real quick check would see
            entry = (digest, stat.st_mtime_ns // 10**9)
            self.table[key] = entry
        if entry is None or entry[0] != digest:
            self.tick += 10
            entry = (digest, self.tick)
            self.table[key] = entry
        if stat.st_mtime_ns != entry[1] * 10**9:
            os.utime(path, ns=(entry[1] * 10**9, entry[1] * 10**9))

    def stamp_tree(self, root):
        if os.path.isfile(root):
            self.stamp(root)
            return
        for dirpath, _, filenames in os.walk(root):
            for name in filenames:
                self.stamp(os.path.join(dirpath, name))


CLOCK = LogicalMtime()


def _quick_check_same(path_a, path_b):
    """rsync's quick check: same length and same modification time."""
    try:
        sta, stb = os.stat(path_a), os.stat(path_b)
    except OSError:
        return False
    return sta.st_size == stb.st_size and sta.st_mtime_ns == stb.st_mtime_ns


def _rule_regex(pattern):
    """rsync wildcard pattern -> regex source: '*' stops at '/', '**' does not, '?' is one non-slash character."""
    out = []
    i = 0
    while i < len(pattern):
        char = pattern[i]
        if pattern.startswith('**', i):
            out.append('.*')
            i += 2
            continue
        if char == '*':
            out.append('[^/]*')
        elif char == '?':
            out.append('[^/]')
        elif char == '[':
            end = pattern.find(']', i + 2)
            if end < 0:
                out.append(re.escape(char))
            else:
                body = pattern[i + 1 : end]
                if body.startswith('!'):
                    body = '^' + body[1:]
                out.append('[' + body.replace('\\', '\\\\') + ']')
                i = end
        else:
            out.append(re.escape(char))
        i += 1
    return ''.join(out)


def rule_matches(pattern, rel, is_dir):
    """Does the include / exclude pattern match the name ``rel`` (path relative to the transfer root, no leading '/')?
    rsync(1), INCLUDE/EXCLUDE PATTERN RULES: a leading '/' anchors the pattern at the transfer root; a trailing '/' matches
    directories only; a pattern containing '/' or '**' is matched against the whole path (its tail if not anchored),
    any other pattern against the last component."""
    anchored = pattern.startswith('/')
    body = pattern[1:] if anchored else pattern
    if body.endswith('/'):
        if not is_dir:
            return False
        body = body[:-1]
    regex = _rule_regex(body)
    if anchored:
        return re.fullmatch(regex, rel) is not None
    if '/' in body or '**' in body:
        return re.fullmatch('(?:.*/)?' + regex, '/' + rel) is not None  # (rsync matches such patterns against '/' + name)
    return re.fullmatch(regex, rel.rsplit('/', 1)[-1]) is not None


def excluded(rules, rel, is_dir):
    """First matching rule decides ('+' include, '-' exclude); a name no rule matches is transferred."""
    for sign, pattern in rules:
        if rule_matches(pattern, rel, is_dir):
            return sign == '-'
    return False


def as_rules(excludes):
    return [rule if isinstance(rule, (tuple, list)) else ('-', rule) for rule in excludes]


def scan(src_root, rules, prefix=''):
    """Relative paths of dirs and files under src_root (a directory), honouring the filter rules. ``prefix`` is the name
    of src_root inside the transfer (rsync matches rules against names relative to the transfer root)."""
    dirs, files = [], []
    for dirpath, dirnames, filenames in os.walk(src_root):
        rel = os.path.relpath(dirpath, src_root)
        rel = '' if rel == '.' else rel

        def name_of(name, rel=rel):
            return '/'.join(part for part in (prefix, rel, name) if part)

        dirnames[:] = sorted(d for d in dirnames if not excluded(rules, name_of(d), True))  # an excluded directory is not entered
        for name in dirnames:
            dirs.append(os.path.normpath(os.path.join(rel, name)))
        for name in sorted(filenames):
            if excluded(rules, name_of(name), False):
                continue
            files.append(os.path.normpath(os.path.join(rel, name)))
    return dirs, files


def copy_file(src, dst, link_candidate, point, stats):
    """Copy one regular file the way rsync does (temp name + rename); may raise RsyncFailed."""
    point('rsync.file', dst)
    if os.path.lexists(dst) and _quick_check_same(src, dst):
        stats['skipped'] += 1
        return
    if link_candidate and os.path.isfile(link_candidate) and _quick_check_same(src, link_candidate):
        tmp = dst + '.lnk~'
        if os.path.lexists(tmp):
            os.unlink(tmp)
        os.link(link_candidate, tmp)
        os.replace(tmp, dst)
        stats['linked'] += 1
        return
    try:
        handle = open(src, 'rb')  # pylint: disable=consider-using-with
    except FileNotFoundError:
        stats['vanished'] += 1
        raise RsyncFailed(f'file has vanished: {src}') from None
    try:
        length = os.fstat(handle.fileno()).st_size
        tmp = os.path.join(os.path.dirname(dst), '.' + os.path.basename(dst) + '.tmp~')
        with open(tmp, 'wb') as out:
            remaining = length
            while remaining > 0:
                point('rsync.chunk', dst)
                data = handle.read(min(CHUNK, remaining))
                if not data:
                    break  # the file shrank: rsync sends what is there
                out.write(data)
                remaining -= len(data)
        stat = os.fstat(handle.fileno())
        os.utime(tmp, ns=(stat.st_atime_ns, stat.st_mtime_ns))
        os.replace(tmp, dst)
        stats['copied'] += 1
    finally:
        handle.close()


def rsync(src, dest, link_dest=None, src_trailing_slash=False, excludes=(), point=None, stats=None, dest_trailing_slash=False):  # pylint: disable=too-many-arguments,too-many-locals
    """``rsync -a [--link-dest=..] [--exclude ..] src[/] dest`` for local paths."""
    point = point or (lambda kind, path: None)
    stats = stats if stats is not None else {'copied': 0, 'linked': 0, 'skipped': 0, 'vanished': 0}
    src = str(src)
    dest = str(dest)
    point('rsync.scan', dest)
    CLOCK.stamp_tree(src)
    if not os.path.exists(src):
        raise RsyncFailed(f'source does not exist: {src}')
    top = os.path.basename(src.rstrip('/'))
    rules = as_rules(excludes)
    if not src_trailing_slash and excluded(rules, top, os.path.isdir(src)):
        return stats  # the transfer root itself is excluded: nothing is sent
    if os.path.isfile(src):
        cand = os.path.join(str(link_dest), top) if link_dest else None
        if os.path.isdir(dest) or dest_trailing_slash:
            os.makedirs(dest, exist_ok=True)
            copy_file(src, os.path.join(dest, top), cand, point, stats)
        else:
            # a single file to a destination that does not exist: the destination *is* the file name
            os.makedirs(os.path.dirname(dest) or '.', exist_ok=True)
            copy_file(src, dest, cand, point, stats)
        return stats
    dest_missing = not os.path.lexists(dest)
    if not os.path.isdir(dest):
        os.makedirs(dest, exist_ok=True)
    if src_trailing_slash:
        base_rel = ''
    else:
        base_rel = top
    dirs, files = scan(src, rules, prefix=base_rel)
    if base_rel and dest_missing and not dest_trailing_slash and not dirs and not files:
        # rsync: a transfer of exactly one item to a destination that does not exist (and is not written with a trailing
        # slash) makes the destination the *name of the copy* - for a single file and equally for a single empty
        # directory: `rsync -a c/loose bk/new` with an empty loose/ creates bk/new as the copy of loose, not bk/new/loose
        return stats
    if base_rel:
        os.makedirs(os.path.join(dest, base_rel), exist_ok=True)
    for rel in dirs:
        os.makedirs(os.path.join(dest, base_rel, rel), exist_ok=True)
    failed = None
    for rel in files:
        target_rel = os.path.normpath(os.path.join(base_rel, rel))
        dst = os.path.join(dest, target_rel)
        cand = os.path.join(str(link_dest), target_rel) if link_dest else None
        os.makedirs(os.path.dirname(dst), exist_ok=True)
        try:
            copy_file(os.path.join(src, rel), dst, cand, point, stats)
        except RsyncFailed as exc:
            failed = exc  # rsync goes on with the other files and exits with code 24 at the end
    if failed is not None:
        raise failed
    return stats


def make_manager_class(backup_utils):
    """Subclass of the library's BackupManager whose external programs are simulated."""

    class SimBackupManager(backup_utils.BackupManager):
        stats = None

        def get_rsync_major_version(self):
            return 3

        def check_if_remote_accessible(self):
            raise backup_utils.BackupError('remote destinations are not simulated')

        def run_cmd(self, args):  # pylint: disable=too-many-return-statements
            args = [str(a) for a in args]
            prog = args[0]
            SIM.point('cmd.' + prog, args[-1] if prog != '[' else args[2], prog in ('mv', 'rm', 'ln', 'mkdir'))
            try:
                if prog == '[':
                    return os.path.exists(args[2]), ''
                if prog == 'mkdir':
                    os.mkdir(args[1])
                    return True, ''
                if prog == 'find':
                    base = args[1]
                    names = sorted(
                        os.path.join(base, n)
                        for n in os.listdir(base)
                        if fnmatch.fnmatch(n, 'backup_*_*') and os.path.isdir(os.path.join(base, n)) and not os.path.islink(os.path.join(base, n))
                    )
                    return True, ''.join(n + '\n' for n in names)
                if prog == 'mv':
                    os.rename(args[1], args[2])
                    return True, ''
                if prog == 'ln':
                    target, link = args[2], args[3]
                    if os.path.lexists(link):
                        os.unlink(link)
                    os.symlink(target, link)
                    return True, ''
                if prog == 'rm':
                    shutil.rmtree(args[2], ignore_errors=True)
                    return True, ''
            except OSError:
                return False, ''
            return False, ''

        def call_rsync(self, src, dest, link_dest=None, src_trailing_slash=False, dest_trailing_slash=False, extra_args=None):  # pylint: disable=too-many-arguments
            excludes = []  # ordered filter rules ('+' | '-', pattern)
            extra = [str(arg) for arg in (extra_args or [])]
            while extra:
                arg = extra.pop(0)
                if arg in ('--exclude', '--include'):
                    excludes.append(('-' if arg == '--exclude' else '+', extra.pop(0)))
                elif arg.startswith('--exclude=') or arg.startswith('--include='):
                    excludes.append(('-' if arg.startswith('--exclude') else '+', arg.split('=', 1)[1]))
                else:
                    # never ignore an option silently: the copier would no longer behave like the program it stands for
                    from .core import HarnessError  # pylint: disable=import-outside-toplevel

                    raise HarnessError(f'rsync stub: option {arg!r} is not modelled')
            if link_dest is not None:
                link_dest = Path(link_dest).resolve()
            if SimBackupManager.stats is None:
                SimBackupManager.stats = {'copied': 0, 'linked': 0, 'skipped': 0, 'vanished': 0, 'calls': 0}
            SimBackupManager.stats['calls'] += 1
            try:
                rsync(
                    src,
                    dest,
                    link_dest=link_dest,
                    src_trailing_slash=src_trailing_slash,
                    dest_trailing_slash=dest_trailing_slash,
                    excludes=excludes,
                    point=lambda kind, path: SIM.point(kind, path, False),
                    stats=SimBackupManager.stats,
                )
            except RsyncFailed as exc:
                raise backup_utils.BackupError(f'rsync failed for: {src!s} to {dest!s} ({exc})') from exc

    # a programming error inside the stub must surface as a harness error, not as an exception "raised by the library"
    # (the stub's methods are called from library frames, which is how exceptions are attributed)
    def guarded(method):
        def wrapper(self, *args, **kwargs):
            try:
                return method(self, *args, **kwargs)
            except (backup_utils.BackupError, OSError):
                raise
            except Exception as exc:  # pylint: disable=broad-except
                from .core import HarnessError, SimAbort  # pylint: disable=import-outside-toplevel

                if isinstance(exc, (HarnessError, SimAbort)):
                    raise
                raise HarnessError(f'rsync stub failed: {exc!r}') from exc

        wrapper.__name__ = method.__name__
        return wrapper

    SimBackupManager.run_cmd = guarded(SimBackupManager.run_cmd)
    SimBackupManager.call_rsync = guarded(SimBackupManager.call_rsync)
    return SimBackupManager


def make_real_manager_class(backup_utils):
    """The library's own BackupManager with the *real* /usr/bin/rsync and coreutils (no stub): every external call is one
    scheduling point (phase granularity - the program runs to completion before anybody else is scheduled). Source files
    get their logical mtimes first, exactly as in the stub, because the simulation outruns the timestamp granularity of
    the file system and rsync's quick check (size + mtime) would otherwise see changed files as unchanged."""

    class RealBackupManager(backup_utils.BackupManager):
        stats = None

        def call_rsync(self, src, dest, *args, **kwargs):  # pylint: disable=arguments-differ
            SIM.point('rsync.call', dest, False)
            CLOCK.stamp_tree(str(src))
            if RealBackupManager.stats is None:
                RealBackupManager.stats = {'copied': 0, 'linked': 0, 'skipped': 0, 'vanished': 0, 'calls': 0}
            RealBackupManager.stats['calls'] += 1
            with SIM.quiet():
                return super().call_rsync(src, dest, *args, **kwargs)

        def run_cmd(self, args):
            sargs = [str(a) for a in args]
            prog = sargs[0]
            SIM.point('cmd.' + prog, sargs[-1] if prog != '[' else sargs[2], prog in ('mv', 'rm', 'ln', 'mkdir'))
            with SIM.quiet():
                return super().run_cmd(args)

    return RealBackupManager
