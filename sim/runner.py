"""Batch runner: 16 hash lanes of worker interpreters, violation handling, replay, evidence (DESIGN.md 2.1, 2.6, 2.7)."""

from __future__ import annotations

import collections
import json
import os
import re
import select
import subprocess
import sys
import threading
import time

VERIF = os.path.dirname(os.path.dirname(os.path.abspath(__file__)))
PYTHON = sys.executable
NLANES = 16
REPO_DIR = os.environ.get('VERIF_REPO_DIR', '/repo')
OUT = os.environ.get('VERIF_OUT_DIR') or VERIF  # sensitivity runs against a mutated copy write elsewhere
SCRATCH = '/dev/shm' if os.path.isdir('/dev/shm') and os.access('/dev/shm', os.W_OK) else os.environ.get('TMPDIR', '/tmp')

sys.path.insert(0, VERIF)
from sim import propinfo  # noqa: E402  pylint: disable=wrong-import-position


class LaneDead(Exception):
    pass


class Lane:
    """One worker interpreter with a fixed PYTHONHASHSEED."""

    def __init__(self, hashseed):
        env = dict(os.environ)
        env['PYTHONHASHSEED'] = str(hashseed)
        env['PYTHONDONTWRITEBYTECODE'] = '1'
        env['VERIF_REPO_DIR'] = REPO_DIR
        self.hashseed = hashseed
        self.stderr_path = os.path.join(SCRATCH, f'dos-sim-worker-{os.getpid()}-{id(self)}.err')
        self.stderr = open(self.stderr_path, 'w')  # pylint: disable=consider-using-with
        self.proc = subprocess.Popen(  # pylint: disable=consider-using-with
            [PYTHON, '-u', os.path.join(VERIF, 'sim_worker.py')],
            stdin=subprocess.PIPE,
            stdout=subprocess.PIPE,
            stderr=self.stderr,
            env=env,
            cwd=VERIF,
            text=True,
            bufsize=1,
        )

    def call(self, job, timeout):
        job = dict(job, limit=int(timeout))
        try:
            self.proc.stdin.write(json.dumps(job) + '\n')
            self.proc.stdin.flush()
        except (BrokenPipeError, OSError) as exc:
            raise LaneDead(f'worker gone: {exc}') from exc
        deadline = time.time() + timeout + 10
        while True:
            remaining = deadline - time.time()
            if remaining <= 0:
                self.kill()
                raise LaneDead(f'no answer within {timeout}s: {self.tail()}')
            ready, _, _ = select.select([self.proc.stdout], [], [], min(remaining, 1.0))
            if ready:
                line = self.proc.stdout.readline()
                if not line:
                    raise LaneDead(f'worker exited ({self.proc.poll()}): {self.tail()}')
                return json.loads(line)
            if self.proc.poll() is not None:
                raise LaneDead(f'worker exited ({self.proc.returncode}): {self.tail()}')

    def tail(self):
        try:
            self.stderr.flush()
            with open(self.stderr_path, encoding='utf8', errors='replace') as handle:
                text = handle.read()
                # faulthandler's 'Timeout (h:mm:ss)!' header precedes the stack dump: keep it visible for is_timeout()
                mark = 'Timeout (limit exceeded)! ... ' if 'Timeout (' in text[:-1500] else ''
                return mark + text[-1500:]
        except OSError:
            return ''

    def kill(self):
        try:
            self.proc.kill()
        except OSError:
            pass

    def close(self):
        try:
            if self.proc.poll() is None:
                self.proc.stdin.write('{"cmd": "quit"}\n')
                self.proc.stdin.flush()
                self.proc.wait(timeout=5)
        except Exception:  # pylint: disable=broad-except
            self.kill()
        try:
            self.stderr.close()
            os.unlink(self.stderr_path)
        except OSError:
            pass


def lane_hashseed(base, lane):
    return (base + lane) % 1024


def load_known_findings():
    path = os.path.join(VERIF, 'known_findings.json')
    try:
        with open(path, encoding='utf8') as handle:
            return json.load(handle)
    except FileNotFoundError:
        return {'findings': []}


def match_known(prop, violation, known):
    for entry in known.get('findings', []):
        if entry.get('status') != 'open' or entry.get('property') != prop:
            continue
        if re.search(entry.get('class', '.*'), violation['class']) and re.search(
            entry.get('detail', '.*'), violation['detail'], re.S
        ):
            return entry
    return None


def run_batch(prop, tier, base_seed, budget_s=None, nruns=None):  # pylint: disable=too-many-locals,too-many-statements
    info = propinfo.INFO[prop]
    started = time.time()
    quick = tier == 'quick'
    if nruns is None:
        nruns = info['quick_runs'] if quick else info.get('thorough_max_runs', 10**9)
    if budget_s is None:
        budget_s = info.get('quick_budget_s', 150) if quick else float(os.environ.get('VERIF_BUDGET_S', info.get('thorough_budget_s', 720)))
    # generous: a run normally takes 10 ms - 5 s; the limit only turns a genuine hang into a harness error, also when
    # the machine is heavily loaded by other jobs
    per_run = int(os.environ.get('VERIF_RUN_LIMIT_S', 0)) or info.get('run_limit_s', 400) * (1 if quick else 3)
    records = {}
    errors = []
    timeouts = {}
    lock = threading.Lock()
    stop = threading.Event()
    ncpu = os.cpu_count() or 1
    gate = threading.Semaphore(min(NLANES, ncpu))

    def lane_main(lane_no):
        with gate:
            lane = Lane(lane_hashseed(base_seed, lane_no))
            try:
                k = 0
                while not stop.is_set():
                    index = lane_no + NLANES * k
                    k += 1
                    if index >= nruns:
                        break
                    if time.time() - started > budget_s:
                        break
                    job = {'cmd': 'run', 'prop': prop, 'index': index, 'base': base_seed, 'tier': tier, 'want_sample': index < 3}
                    try:
                        out = lane.call(job, per_run)
                    except LaneDead as exc:
                        if is_timeout(exc) and len(timeouts) < 6:
                            # decided after the batch (retry_timeouts): slow under load, or a genuine hang?
                            with lock:
                                timeouts[index] = str(exc)
                            lane.close()
                            lane = Lane(lane_hashseed(base_seed, lane_no))
                            continue
                        with lock:
                            errors.append(f'lane {lane_no} run {index}: {exc}')
                        stop.set()
                        break
                    out['lane'] = lane_no
                    out['hashseed'] = lane.hashseed
                    with lock:
                        records[index] = out
                        res = out['result']
                        if res.get('error'):
                            errors.append(f'run {index}: {res["error"]}')
                            stop.set()
                        elif not res['ok']:
                            nviol = sum(1 for r in records.values() if not r['result']['ok'])
                            if nviol >= 4:
                                stop.set()
            finally:
                lane.close()

    threads = [threading.Thread(target=lane_main, args=(i,), daemon=True) for i in range(NLANES)]
    for thr in threads:
        thr.start()
    for thr in threads:
        thr.join()
    if timeouts and not errors:
        retry_timeouts(prop, tier, base_seed, timeouts, per_run, records, errors)
    return records, errors, time.time() - started


def is_timeout(exc):
    return 'Timeout (' in str(exc) or 'no answer within' in str(exc)


def retry_timeouts(prop, tier, base_seed, timeouts, per_run, records, errors):
    """A run that exceeded the per-run limit while 16 lanes (and whatever else) loaded the machine is re-executed alone in
    a fresh interpreter with the same limit. If it completes, its result is used like any other (slow, not wrong). If it
    exceeds the limit again, the operation under test does not terminate: that is reported as a violation of class
    'hang' with the generated case as the replay file (no minimisation: every attempt would cost the full limit)."""
    hung = 0
    for index in sorted(timeouts):
        lane_no = index % NLANES
        hashseed = lane_hashseed(base_seed, lane_no)
        job = {'cmd': 'run', 'prop': prop, 'index': index, 'base': base_seed, 'tier': tier}
        if hung:
            continue  # one hanging run is reported; further runs over the limit are not retried
        try:
            out = run_single(job, hashseed, per_run)
            out['lane'] = lane_no
            out['hashseed'] = hashseed
            out['slow'] = True
            records[index] = out
            if out['result'].get('error'):
                errors.append(f'run {index}: {out["result"]["error"]}')
        except LaneDead as exc:
            if not is_timeout(exc):
                errors.append(f'run {index} (retry alone): {exc}')
                continue
            hung += 1
            try:
                case = run_single(dict(job, cmd='gen'), hashseed, 120)['case']
            except (LaneDead, KeyError) as exc2:
                errors.append(f'run {index}: hangs, and its case could not be generated: {exc2}')
                continue
            records[index] = {
                'index': index,
                'seed': case.get('seed'),
                'lane': lane_no,
                'hashseed': hashseed,
                'case': case,
                'lift': None,
                'result': {
                    'ok': False,
                    'error': None,
                    'violation': {
                        'class': 'hang',
                        'detail': f'the run did not finish within {per_run} s, neither in the batch nor alone in a fresh interpreter; '
                        f'stack at the limit: {str(exc)[-1200:]}',
                        'step': None,
                    },
                },
            }


def run_single(job, hashseed, timeout):
    lane = Lane(hashseed)
    try:
        return lane.call(job, timeout)
    finally:
        lane.close()


def determinism_selftest(prop, tier, base_seed, records, count=3):
    """Re-run a few runs alone, in fresh interpreters with the same PYTHONHASHSEED: digests must match."""
    ok_idx = sorted(
        i for i, r in records.items() if not r['result'].get('error') and (r['result'].get('violation') or {}).get('class') != 'hang'
    )
    if not ok_idx:
        return []
    picks = sorted({ok_idx[0], ok_idx[len(ok_idx) // 2], ok_idx[-1]})[:count]
    mismatches = []
    for index in picks:
        rec = records[index]
        try:
            out = run_single(
                {'cmd': 'run', 'prop': prop, 'index': index, 'base': base_seed, 'tier': tier}, rec['hashseed'], 300
            )
        except LaneDead as exc:
            mismatches.append(f'run {index}: selftest worker died: {exc}')
            continue
        a, b = rec['result'], out['result']
        if a.get('digest') != b.get('digest') or a['ok'] != b['ok'] or a.get('steps') != b.get('steps'):
            mismatches.append(
                f"run {index}: digest {a.get('digest')} vs {b.get('digest')}, ok {a['ok']} vs {b['ok']}, "
                f"steps {a.get('steps')} vs {b.get('steps')}"
            )
    return mismatches


def write_replay(prop, rec, case, result, note):
    os.makedirs(os.path.join(OUT, 'replays'), exist_ok=True)
    path = os.path.join(OUT, 'replays', f"{prop}-{case.get('seed', rec.get('index'))}.json")
    import sqlalchemy  # pylint: disable=import-outside-toplevel
    import sqlite3  # pylint: disable=import-outside-toplevel

    doc = {
        'property': prop,
        'hashseed': rec['hashseed'],
        'case': case,
        'violation': result['violation'],
        'note': note,
        'versions': {'python': sys.version.split()[0], 'sqlalchemy': sqlalchemy.__version__, 'sqlite': sqlite3.sqlite_version},
        'repo_dir': REPO_DIR,
    }
    with open(path, 'w', encoding='utf8') as handle:
        json.dump(doc, handle, indent=1)
    return path


def handle_violation(prop, rec, minimise=True):
    """Minimise, verify replay in a fresh process, write the replay file. Returns path."""
    case, result = rec['case'], rec['result']
    note = rec.get('lift') or 'as found'
    if minimise:
        try:
            out = run_single({'cmd': 'shrink', 'case': case, 'budget': 60}, rec['hashseed'], 200)
            small, sres = out['case'], out['result']
            if sres.get('violation') and not sres.get('error'):
                # replay the minimised case once more in a fresh interpreter
                again = run_single({'cmd': 'case', 'case': small}, rec['hashseed'], 200)['result']
                if again.get('violation') and again['violation']['class'] == sres['violation']['class']:
                    case, result, note = small, again, f'{note}; minimised'
                else:
                    note = f'{note}; minimised form did not replay, reporting unminimised'
        except (LaneDead, KeyError, json.JSONDecodeError) as exc:
            note = f'{note}; minimisation failed ({exc})'
    return write_replay(prop, rec, case, result, note), result


def aggregate(prop, tier, base_seed, records, wall, errors, nviol, notes):  # pylint: disable=too-many-locals
    info = propinfo.INFO[prop]
    evals = 0
    steps = 0
    behaviours = set()
    faults = collections.Counter()
    probes = collections.Counter()
    opsc = collections.Counter()
    kinds = collections.Counter()
    engines = collections.Counter()
    samples = []
    digests = set()
    candidates = []
    for index in sorted(records):
        rec = records[index]
        res = rec['result']
        if res.get('error'):
            continue
        evals += res.get('evals', 1)
        steps += res.get('steps', 0)
        digests.add(res.get('digest'))
        if 'behaviours' in res:
            behaviours.update(res['behaviours'])
        elif res.get('nontrivial'):
            behaviours.add(res.get('behaviour'))
        for key, val in (res.get('faults') or {}).items():
            faults[key] += val
        for key, val in (res.get('probes') or {}).items():
            if isinstance(val, (int, float)):
                probes[key] += val
        for key, val in (res.get('ops') or {}).items():
            opsc[key] += val
        for key, val in (res.get('kinds') or {}).items():
            kinds[key.split(':')[0] if key.startswith('open') else key] += val
        engines[res.get('engine', '?')] += 1
        if 'sample' in rec and len(samples) < 3:
            samples.append(rec['sample'])
        if res.get('candidate'):
            candidates.append({'index': index, 'candidate': res['candidate']})
    nruns = len(records)
    doc = {
        'property_id': prop,
        'tier': tier,
        'seed': base_seed,
        'level': info['level'],
        'coverage': {
            'evaluations': evals,
            'distinct_nontrivial': len(behaviours),
            'rule': info['rule'],
            'samples': samples or [{'note': 'no run completed'}],
            'runs': nruns,
            'runs_per_hour': round(nruns / wall * 3600) if wall > 0 else 0,
            'seeds': f'base {base_seed}: run i uses seed base*1000003+i, hash lane i mod 16 with PYTHONHASHSEED (base+lane) mod 1024',
            'logical_steps_simulated': steps,
            'simulated_time': 'the library has no clock or timer; simulated time is reported as logical steps (seam calls under the simulator)',
            'distinct_event_log_digests': len(digests),
            'faults_fired': dict(faults),
            'probes': dict(probes),
            'operations_executed': dict(opsc),
            'seam_calls_by_kind': dict(kinds),
            'knob_only_candidates': candidates[:5],
            'real_vs_stub': propinfo.REAL_VS_STUB,
            'notes': notes,
            'harness_errors': errors[:5],
        },
        'assumptions': info.get('assumptions', propinfo.DEFAULT_ASSUMPTIONS),
        'wall_s': round(wall, 2),
        'violations': nviol,
    }
    os.makedirs(os.path.join(OUT, 'evidence'), exist_ok=True)
    with open(os.path.join(OUT, 'evidence', f'{prop}.json'), 'w', encoding='utf8') as handle:
        json.dump(doc, handle, indent=1)
    return doc


def check(prop, tier, base_seed):
    """Entry point of ``./check <prop> <tier>``; returns the exit code."""
    print(f'[{prop}] tier={tier} VERIF_SEED={base_seed} repo={REPO_DIR}', flush=True)
    records, errors, wall = run_batch(prop, tier, base_seed)
    notes = []
    planned = propinfo.INFO[prop]['quick_runs'] if tier == 'quick' else None
    if planned and len(records) < planned and not errors and all(r['result']['ok'] for r in records.values()):
        notes.append(
            f'NOTE batch cut by the wall budget after {len(records)} of {planned} planned runs (loaded machine); '
            'the runs executed are the same runs a full batch starts with'
        )
    known = load_known_findings()
    violations = [records[i] for i in sorted(records) if not records[i]['result']['ok'] and not records[i]['result'].get('error')]
    real = []
    for rec in violations:
        entry = match_known(prop, rec['result']['violation'], known)
        if entry:
            print(f"KNOWN-FINDING: property={prop} {entry['what']}", flush=True)
        else:
            real.append(rec)
    mism = [] if errors else determinism_selftest(prop, tier, base_seed, records)
    if mism:
        errors.extend('non-deterministic: ' + m for m in mism)
    for index in sorted(records):
        cand = records[index]['result'].get('candidate')
        if cand:
            notes.append(f"NOTE knob-only candidate (run {index}): {cand['class']}")
    paths = []
    if real and not errors:
        path, result = handle_violation(prop, real[0], minimise=real[0]['result']['violation']['class'] != 'hang')
        paths.append(path)
        print(f"violation class: {result['violation']['class']}", flush=True)
        print(f"violation detail: {result['violation']['detail'][:600]}", flush=True)
    doc = aggregate(prop, tier, base_seed, records, wall, errors, len(real), notes)
    cov = doc['coverage']
    print(
        f"[{prop}] runs={cov['runs']} evaluations={cov['evaluations']} distinct_nontrivial={cov['distinct_nontrivial']} "
        f"steps={cov['logical_steps_simulated']} wall={doc['wall_s']}s violations={len(real)}",
        flush=True,
    )
    for note in notes[:5]:
        print(note, flush=True)
    if errors:
        for err in errors[:5]:
            print(f'HARNESS-ERROR: {err}', flush=True)
        return 2
    if real:
        print(f'VIOLATION property={prop} replay={paths[0]}', flush=True)
        return 1
    return 0


def replay(path):
    with open(path, encoding='utf8') as handle:
        doc = json.load(handle)
    limit = int(os.environ.get('VERIF_REPLAY_LIMIT_S', 1200))
    try:
        out = run_single({'cmd': 'case', 'case': doc['case']}, doc['hashseed'], limit)
    except LaneDead as exc:
        if is_timeout(exc) and doc['violation']['class'] == 'hang':
            print(f'replayed: hang (no result within {limit} s; recorded: hang) same_class=True')
            print(f"VIOLATION property={doc['property']} replay={path}")
            return 1
        print(f'HARNESS-ERROR: {exc}')
        return 2
    res = out['result']
    if res.get('error'):
        print(f"HARNESS-ERROR: {res['error']}")
        return 2
    if res.get('violation'):
        same = res['violation']['class'] == doc['violation']['class']
        print(f"replayed: {res['violation']['class']} (recorded: {doc['violation']['class']}) same_class={same}")
        print(res['violation']['detail'][:1000])
        print(f"VIOLATION property={doc['property']} replay={path}")
        return 1
    print('replay: no violation')
    return 0
