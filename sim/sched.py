"""Baton-passing scheduler: actor threads run one at a time, the seeded driver decides who runs at every seam call.

Each actor is a real thread (SQLite connections are per thread) that parks on its own event at every ``SIM.point``
*before* the call is executed. The driver releases exactly one parked actor, waits until it parks again or finishes,
records the decision and repeats - so the interleaving is a pure function of the decision list (DESIGN.md 2.2).
"""

from __future__ import annotations

import faulthandler
import sys
import threading

from .core import HarnessError, SimAbort


class Actor:  # pylint: disable=too-many-instance-attributes
    def __init__(self, sched, name, func, role):
        self.sched = sched
        self.name = name
        self.func = func
        self.role = role
        self.resume = threading.Event()
        self.state = 'new'
        self.pending = None
        self.exc = None
        self.killed = False
        self.unwinding = False
        self.steps = 0
        self.thread = threading.Thread(target=self._main, name=f'actor-{name}', daemon=True)

    def _main(self):
        self.sched.by_thread[threading.get_ident()] = self
        try:
            self.park('start', '', False)
            self.func(self)
        except SimAbort:
            pass
        except BaseException as exc:  # pylint: disable=broad-except
            self.exc = exc
        finally:
            self.state = 'done'
            self.sched.wake.set()

    def park(self, kind, rel, mut):
        if self.killed:
            if self.unwinding:
                return  # cleanup code of a killed actor runs through
            self.unwinding = True
            raise SimAbort()
        self.pending = (kind, rel, mut)
        self.state = 'parked'
        self.sched.wake.set()
        self.resume.wait()
        self.resume.clear()
        if self.killed:
            self.unwinding = True
            raise SimAbort()
        self.state = 'running'
        self.steps += 1


class Scheduler:  # pylint: disable=too-many-instance-attributes
    def __init__(self, sim, rng, policy='uniform', max_steps=20000, replay=None, stall_s=60):
        self.sim = sim
        self.rng = rng
        self.policy = policy
        self.max_steps = max_steps
        self.replay = list(replay) if replay is not None else None
        self.actors = []
        self.by_thread = {}
        self.wake = threading.Event()
        self.decisions = []
        self.last = None
        self.stall_s = stall_s
        self.on_step = None
        self.kill_plan = {}  # actor name -> step count at which it is killed (never resumed)
        self.prio = {}
        self.change_points = set()
        self.frozen = None  # 'freeze' policy: the stalled actor (runs only when nobody else can)
        self.freeze_count = 0
        self.freeze_done = False

    def current_actor(self):
        return self.by_thread.get(threading.get_ident())

    def spawn(self, name, func, role='other'):
        actor = Actor(self, name, func, role)
        self.actors.append(actor)
        return actor

    def _wait(self, what):
        if not self.wake.wait(self.stall_s):
            faulthandler.dump_traceback(file=sys.stderr)
            raise HarnessError(f'scheduler stalled waiting for {what} (real blocking inside an actor?)')
        self.wake.clear()

    def choose(self, runnable):
        if self.replay is not None:
            while self.replay:
                name = self.replay.pop(0)
                for actor in runnable:
                    if actor.name == name:
                        return actor
            return runnable[0]
        rng = self.rng
        pol = self.policy
        if pol[0] == 'sticky':
            if self.last in runnable and rng.random() < pol[1]:
                return self.last
            return rng.choice(runnable)
        if pol[0] == 'pct':
            if not self.prio:
                order = list(self.actors)
                rng.shuffle(order)
                self.prio = {a.name: i for i, a in enumerate(order)}
                self.change_points = {rng.randrange(1, pol[2]) for _ in range(pol[1])}
            if len(self.decisions) in self.change_points and self.last is not None:
                self.prio[self.last.name] = min(self.prio.values()) - 1
            return max(runnable, key=lambda a: self.prio[a.name])
        if pol[0] == 'stall':
            # delay whoever is about to make a change visible / remove something: commits, renames, unlinks
            eager = [
                a
                for a in runnable
                if not (a.pending and a.pending[0] in ('sql:COMMIT', 'os.remove', 'os.unlink', 'os.rename', 'os.replace', 'os.link'))
            ]
            if eager and rng.random() < pol[1]:
                if len(pol) > 2 and self.last in eager and rng.random() < pol[2]:
                    return self.last  # let the same actor go on (a whole operation fits into the delayed window)
                return rng.choice(eager)
            return rng.choice(runnable)
        if pol[0] == 'freeze':
            # a stalled process: the first actor of role pol[1] that reaches its pol[3]-th seam call of kind pol[2] is
            # frozen right before ('before') or right after ('after') that call and only continues once every other
            # actor has finished - so whole operations of the other clients fall into that one window
            _, role, prefix, nth, when, sticky = pol
            cand = [a for a in runnable if a is not self.frozen] or runnable
            if self.last in cand and rng.random() < sticky:
                actor = self.last
            else:
                actor = rng.choice(cand)
            if not self.freeze_done and actor.role == role and actor.pending and actor.pending[0].startswith(prefix):
                self.freeze_count += 1
                if self.freeze_count >= nth:
                    self.freeze_done = True
                    self.frozen = actor
                    if when == 'before':
                        others = [a for a in runnable if a is not actor]
                        if others:
                            actor = self.last if (self.last in others and rng.random() < sticky) else rng.choice(others)
            return actor
        if pol[0] == 'adversarial':
            # a reader is about to touch a file it located through the index or the loose folder: let the packer run
            packers = [a for a in runnable if a.role == 'packer']
            waiting = [
                a
                for a in self.actors
                if a.role in ('reader', 'backup') and a.state == 'parked' and a.pending and (a.pending[0].startswith('open:rb') or a.pending[0] == 'stat')
            ]
            if packers and waiting and rng.random() < pol[1]:
                return packers[0]
            return rng.choice(runnable)
        return rng.choice(runnable)

    def run(self):
        self.sim.sched = self
        try:
            for actor in self.actors:
                self.wake.clear()
                actor.thread.start()
                self._wait(f'{actor.name} to start')
            while True:
                runnable = [a for a in self.actors if a.state == 'parked' and not a.killed]
                if not runnable:
                    break
                if len(self.decisions) >= self.max_steps:
                    raise HarnessError(f'step cap {self.max_steps} reached')
                actor = self.choose(runnable)
                limit = self.kill_plan.get(actor.name)
                if limit is not None and actor.steps >= limit:
                    actor.killed = True  # never resumed: its buffered data never reaches the folder
                    continue
                self.decisions.append(actor.name)
                self.last = actor
                actor.state = 'running'
                actor.resume.set()
                self._wait(f'{actor.name} to park')
                if self.on_step is not None:
                    self.on_step(actor)
        finally:
            self.sim.sched = None

    def unwind(self):
        """Let killed / still parked actors run their cleanup (after the folder has been checked)."""
        self.sim.frozen = True
        for actor in self.actors:
            if actor.state != 'done':
                actor.killed = True
                actor.resume.set()
            actor.thread.join(self.stall_s)
            if actor.thread.is_alive():
                raise HarnessError(f'actor {actor.name} did not unwind')
