"""Minimisation of failing cases: ddmin over operation lists, then simplification of arguments (DESIGN.md 2.6)."""

from __future__ import annotations

import copy
import time


def vclass(result):
    if result.get('violation'):
        klass = result['violation']['class']
        return klass if klass.startswith('unexpected-exception') else klass.split(':')[0]
    return None


def ddmin_list(items, test, deadline):
    """Classic ddmin: smallest sub-list (1-minimal w.r.t. chunk removal) for which test(sublist) is True."""
    n = 2
    while len(items) >= 1 and time.time() < deadline:
        chunk = max(1, len(items) // n)
        reduced = False
        start = 0
        while start < len(items) and time.time() < deadline:
            cand = items[:start] + items[start + chunk :]
            if test(cand):
                items = cand
                n = max(n - 1, 2)
                reduced = True
            else:
                start += chunk
        if not reduced:
            if chunk == 1:
                break
            n = min(len(items), n * 2)
    return items


def shrink_case(case, execute, list_keys=('ops',), budget_s=60.0, simplify=None):
    """Return (smaller case, its result). ``execute(case) -> result``; failure class must stay the same."""
    deadline = time.time() + budget_s
    base = execute(case)
    want = vclass(base)
    if want is None:
        return case, base
    best = {'case': copy.deepcopy(case), 'result': base}

    def test_with(key, path=None):
        def test(cand):
            trial = copy.deepcopy(best['case'])
            target = trial
            if path:
                for part in path:
                    target = target[part]
            target[key] = cand
            res = execute(trial)
            if res.get('error'):
                return False
            if vclass(res) == want:
                best['case'], best['result'] = trial, res
                return True
            return False

        return test

    for spec in list_keys:
        if isinstance(spec, (list, tuple)):
            *path, key = spec
        else:
            path, key = [], spec
        target = best['case']
        ok = True
        for part in path:
            if isinstance(target, dict) and part in target or isinstance(target, list) and isinstance(part, int) and part < len(target):
                target = target[part]
            else:
                ok = False
                break
        if not ok or key not in target or not isinstance(target[key], list):
            continue
        ddmin_list(list(target[key]), test_with(key, path), deadline)
    progress = simplify is not None
    tried = set()
    while progress and time.time() < deadline:
        progress = False
        for trial in simplify(best['case']):
            if time.time() >= deadline:
                break
            sig = repr(trial)
            if sig in tried:
                continue
            tried.add(sig)
            res = execute(trial)
            if not res.get('error') and vclass(res) == want:
                best['case'], best['result'] = copy.deepcopy(trial), res
                progress = True
                break
    return best['case'], best['result']


def simplify_history(case):
    """Candidate simplifications for engine-A style cases (generator of cases)."""
    # 1. default knobs / default-ish config
    from .world import DEFAULT_KNOBS  # pylint: disable=import-outside-toplevel

    if case.get('knobs') and case['knobs'] != DEFAULT_KNOBS:
        yield dict(case, knobs=dict(DEFAULT_KNOBS))
    if case.get('handles', 1) > 1:
        trial = copy.deepcopy(case)
        trial['handles'] = 1
        yield trial
    # 2. per-op option defaults
    for i, op in enumerate(case.get('ops', [])):
        for key, default in (
            ('callback', False),
            ('do_fsync', True),
            ('via', 'bytes' if op['op'] == 'add_loose' else 'bytesio'),
            ('api', 'objects'),
            ('compress', False),
            ('validate', True),
            ('clean_per_pack', False),
            ('vacuum', False),
            ('repeats', 0),
            ('absent', 0),
            ('kind', 'list'),
        ):
            if key in op and op[key] != default:
                trial = copy.deepcopy(case)
                trial['ops'][i][key] = default
                yield trial
        if 'cs' in op and len(op['cs']) > 1:
            for j in range(len(op['cs'])):
                trial = copy.deepcopy(case)
                del trial['ops'][i]['cs'][j]
                yield trial
    # 3. simpler pool entries
    for i, spec in enumerate(case.get('pool', [])):
        if spec[1] > 3:
            trial = copy.deepcopy(case)
            trial['pool'][i] = ['text', min(spec[1], 3) + (i % 5), spec[2]]
            yield trial
