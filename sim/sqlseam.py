"""SQL seam: a point before every statement and every COMMIT / ROLLBACK of any SQLAlchemy engine under the root."""

from __future__ import annotations

from sqlalchemy import event
from sqlalchemy.engine import Engine

_MUTATING = {'INSERT', 'UPDATE', 'DELETE', 'COMMIT', 'VACUUM', 'CREATE', 'REPLACE', 'DROP'}
_STATE = {}


def install(sim):
    if _STATE:
        return
    _STATE['sim'] = sim

    @event.listens_for(Engine, 'before_cursor_execute')
    def _before(conn, cursor, statement, parameters, context, executemany):  # pylint: disable=unused-argument
        if sim.root is None:
            return
        verb = statement.lstrip().split(None, 1)[0].upper() if statement.strip() else '?'
        sim.point('sql:' + verb, conn.engine.url.database, verb in _MUTATING)

    @event.listens_for(Engine, 'commit')
    def _commit(conn):
        if sim.root is None:
            return
        sim.point('sql:COMMIT', conn.engine.url.database, True)

    @event.listens_for(Engine, 'rollback')
    def _rollback(conn):
        if sim.root is None:
            return
        sim.point('sql:ROLLBACK', conn.engine.url.database, False)
