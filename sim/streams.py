"""Engine S (C07): programs of read / seek / tell on returned streams, in lock-step with io.BytesIO."""

from __future__ import annotations

import hashlib
import io
import json
import random

from .core import SIM, HarnessError, install
from .hist import classify_exception, drop_scratch, new_scratch, short_tb
from .world import DEFAULT_KNOBS, Knobs, Violation, hkey, make_content

FORMS = ['loose', 'packed', 'packedz', 'packedz_cache', 'both']
ENTRIES = ['stream', 'stream_meta', 'bulk']
READ_SIZES = [0, 1, 2, 3, 10, 100, 1000, 65536, 1_000_000, 10**8, -1, None]


def gen_program(rng, length, nsteps, p_inrange=0.8):
    prog = []
    # swarm: each program draws its own palette of read sizes, so tiny and huge reads get mixed in some programs
    palette = rng.sample(READ_SIZES, rng.randint(2, 5)) + [rng.randint(1, max(2, length))]
    weights = rng.choice([[5, 4, 2], [8, 1, 1], [3, 5, 2]])
    for _ in range(nsteps):
        kind = rng.choices(['read', 'seek', 'tell'], weights)[0]
        if kind == 'read':
            size = rng.choice(palette)
            prog.append(['read', size])
        elif kind == 'tell':
            prog.append(['tell'])
        else:
            whence = rng.choice([0, 0, 1, 2])
            inrange = rng.random() < p_inrange
            # targets are generated symbolically: ('abs', fraction) resolved against the current position at run time
            frac = rng.random()
            if rng.random() < 0.25:
                frac = rng.choice([0.0, 1.0])
            out = rng.choice([-1, 1]) * rng.choice([1, 2, 5, 1000, 10**7])
            prog.append(['seek', whence, frac, None if inrange else out])
    return prog


def generate(prop, seed, tier='quick'):
    rng = random.Random(seed)
    big = rng.random() < (0.12 if tier == 'quick' else 0.3)
    if big:
        kind = rng.choice(['rand', 'headrun', 'headrun', 'mixed', 'text'])
        length = rng.choice([65537, 131073, 524289, 600000, 700000, 1200000])
    else:
        kind = rng.choice(['rand', 'text', 'zeros', 'mixed', 'mixed2', 'empty'])
        length = rng.choice([0, 1, 2, 5, 16, 100, 1000, 4097, rng.randint(1, 9000)])
        if kind == 'empty':
            length = 0
    lowered = (not big) and rng.random() < 0.4
    knobs = dict(DEFAULT_KNOBS)
    if lowered:
        knobs['zchunk'] = rng.choice([1, 2, 7, 64, 4096])
        knobs['chunk'] = rng.choice([1, 7, 100, 65536])
    nsteps = rng.randint(1, 25 if tier == 'quick' else 60)
    program = gen_program(rng, length, nsteps)
    if rng.random() < 0.3:
        # 'peek then slurp': a few tiny reads (a header) followed by one huge read - a common way to use a stream
        peek = [['read', rng.choice([1, 1, 2, 3, 4])] for _ in range(rng.randint(1, 5))]
        program = peek + [['read', rng.choice([-1, None, 1_000_000, 10**8])]] + program[: max(0, nsteps - len(peek) - 1)]
        nsteps = len(program)
    return {
        'engine': 'S',
        'prop': prop,
        'seed': seed,
        'tier': tier,
        'config': {
            'hash_type': rng.choice(['sha256', 'sha1']),
            'loose_prefix_len': rng.choice([0, 2, 3]),
            'compression_algorithm': f'zlib+{rng.randint(1, 9)}',
            'pack_size_target': 4 * 1024**3,
        },
        'knobs': knobs,
        'content': [kind, length, rng.randrange(1 << 30)],
        'form': rng.choice(FORMS),
        'entry': rng.choice(ENTRIES),
        'neighbours': [rng.randint(1, 60), rng.randint(1, 60)],
        'program': program,
        # a second stream open at the same time on the same handle (the same object again, or its neighbour in the pack),
        # stepped between the steps of the main program: every returned stream is an independent in-memory file
        'companion': (
            {'target': rng.choice(['same', 'same', 'neighbour']), 'program': gen_program(rng, max(1, length), rng.randint(2, 12))}
            if rng.random() < 0.25
            else None
        ),
        'cleaner': rng.random() < 0.35,
        'clean_at': sorted(rng.sample(range(nsteps + 1), min(nsteps + 1, rng.randint(1, 3)))),
    }


def resolve_seek(step, pos, length):
    """Symbolic seek -> (offset argument, whence, absolute target, in_range)."""
    _, whence, frac, out = step
    if out is None:
        target = int(round(frac * length))
        target = max(0, min(length, target))
    else:
        target = length + out if out > 0 else out
    if whence == 0:
        arg = target
    elif whence == 1:
        arg = target - pos
    else:
        arg = target - length
    return arg, whence, target, 0 <= target <= length


class StreamChecker:
    """Runs a program on (stream, BytesIO model) in lock-step."""

    def __init__(self, content, label):
        self.content = content
        self.model = io.BytesIO(content)
        self.label = label
        self.outcomes = []

    def fail(self, klass, detail, i):
        raise Violation(klass, f'{self.label} step {i}: {detail}', i)

    def run_step(self, stream, step, i):  # pylint: disable=too-many-branches
        length = len(self.content)
        kind = step[0]
        if kind == 'tell':
            got, exp = stream.tell(), self.model.tell()
            if got != exp:
                self.fail('tell-wrong', f'tell() = {got}, in-memory file says {exp}', i)
            self.outcomes.append(('t', got))
        elif kind == 'read':
            size = step[1]
            got = stream.read() if size == 'all' else stream.read(size)
            exp = self.model.read() if size == 'all' else self.model.read(size)
            if got != exp:
                where = self.model.tell() - len(exp)
                leak = ''
                if len(got) > len(exp) or (got and got not in self.content):
                    leak = ' (bytes from outside the object)'
                self.fail('read-wrong', f'read({size}) at {where}: got {len(got)} bytes, expected {len(exp)}{leak}', i)
            self.outcomes.append(('r', len(got)))
        else:
            pos = self.model.tell()
            arg, whence, target, inrange = resolve_seek(step, pos, length)
            if inrange:
                exp = self.model.seek(arg, whence)
                try:
                    got = stream.seek(arg, whence)
                except HarnessError:
                    raise
                except Exception as exc:  # pylint: disable=broad-except
                    self.fail('seek-in-range-raised', f'seek({arg},{whence}) from {pos} (target {target}/{length}): {exc!r}', i)
                if got != exp:
                    self.fail('seek-return-wrong', f'seek({arg},{whence}) from {pos} returned {got}, in-memory file returns {exp}', i)
                now = stream.tell()
                if now != exp:
                    self.fail('tell-wrong', f'after seek({arg},{whence}) tell() = {now}, expected {exp}', i)
                self.outcomes.append(('s', got))
            else:
                try:
                    got = stream.seek(arg, whence)
                except HarnessError:
                    raise
                except Exception as exc:  # pylint: disable=broad-except
                    now = stream.tell()
                    if now != pos:
                        self.fail(
                            'rejected-seek-moved-position',
                            f'seek({arg},{whence}) from {pos} raised {type(exc).__name__} but tell() is now {now}',
                            i,
                        )
                    self.outcomes.append(('x', type(exc).__name__))
                    return
                now = stream.tell()
                try:
                    bio = self.model.seek(arg, whence)
                except (ValueError, OSError):
                    bio = None
                if now == bio and got == bio:
                    pass  # identical to the in-memory file (e.g. position beyond the end: reads return b'')
                elif 0 <= now <= length and got == now:
                    self.model.seek(now)  # clamped
                else:
                    self.fail(
                        'out-of-range-seek-corrupted-position',
                        f'seek({arg},{whence}) from {pos} (object length {length}) returned {got}, tell() = {now}',
                        i,
                    )
                self.outcomes.append(('o', now))


def build(cont, case, content):
    """Store the object in the requested form; returns key."""
    form = case['form']
    before = b'\xaa' * case['neighbours'][0]
    after = b'\xbb' * case['neighbours'][1]
    key = hkey(case['config']['hash_type'], content)
    if form == 'loose':
        cont.add_object(before)
        got = cont.add_object(content)
        cont.add_object(after)
    else:
        compress = form in ('packedz', 'packedz_cache')
        cont.add_objects_to_pack([before], compress=False)
        got = cont.add_objects_to_pack([content], compress=compress)[0]
        cont.add_objects_to_pack([after], compress=False)
        if form == 'packedz_cache':
            cont.loosen_object(key)
        if form == 'both':
            cont.add_object(content)
    if got != key:
        raise Violation('wrong-key', f'{got} vs {key}', -1)
    return key


def execute(case):  # pylint: disable=too-many-locals,too-many-statements,too-many-branches
    lib = install()
    root = new_scratch()
    seed = case['seed']
    SIM.reset(root, seed=seed, fs_rng=random.Random(seed + 17))
    result = {'ok': True, 'violation': None, 'error': None}
    content = make_content(case['content'])
    checker = StreamChecker(content, f"form={case['form']} entry={case['entry']} len={len(content)}")
    cont = cleaner = None
    probes = {'cleans': 0, 'cache_used': 0}
    try:
        with Knobs(case.get('knobs')):
            try:
                import os  # pylint: disable=import-outside-toplevel

                folder = os.path.join(root, 'c')
                cont = lib.Container(folder)
                cont.init_container(**case['config'])
                with SIM.quiet():
                    key = build(cont, case, content)
                    others = [hkey(case['config']['hash_type'], b'\xaa' * case['neighbours'][0])]
                if case.get('cleaner'):
                    cleaner = lib.Container(folder)
                clean_at = set(case.get('clean_at', [])) if cleaner else set()

                comp = case.get('companion')

                def run_program(stream):
                    if comp:
                        ckey = key if comp['target'] == 'same' else others[0]
                        ccontent = content if comp['target'] == 'same' else b'\xaa' * case['neighbours'][0]
                        cchecker = StreamChecker(ccontent, checker.label + f" companion={comp['target']}")
                        with cont.get_object_stream(ckey) as cstream:
                            csteps = comp['program']
                            for i, step in enumerate(case['program']):
                                if i in clean_at:
                                    cleaner.clean_storage()
                                    probes['cleans'] += 1
                                if i < len(csteps):
                                    cchecker.run_step(cstream, csteps[i], i)
                                checker.run_step(stream, step, i)
                            for j in range(len(case['program']), len(csteps)):
                                cchecker.run_step(cstream, csteps[j], j)
                        probes['companion_steps'] = len(cchecker.outcomes)
                    else:
                        for i, step in enumerate(case['program']):
                            if i in clean_at:
                                cleaner.clean_storage()
                                probes['cleans'] += 1
                            checker.run_step(stream, step, i)
                    if getattr(stream, '_use_uncompressed_stream', False):
                        probes['cache_used'] += 1

                entry = case['entry']
                if entry == 'stream':
                    with cont.get_object_stream(key) as stream:
                        run_program(stream)
                elif entry == 'stream_meta':
                    with cont.get_object_stream_and_meta(key) as (stream, meta):
                        if meta.size != len(content):
                            raise Violation('wrong-size', f'meta.size={meta.size} len={len(content)}', -1)
                        run_program(stream)
                else:
                    seen = 0
                    with cont.get_objects_stream_and_meta(others + [key]) as triplets:
                        for okey, stream, meta in triplets:
                            if okey == key:
                                seen += 1
                                run_program(stream)
                            else:
                                data = stream.read()
                                if hkey(case['config']['hash_type'], data) != okey:
                                    raise Violation('read-wrong', f'neighbour {okey[:12]} read wrong bytes', -1)
                    if seen != 1:
                        raise Violation('bulk-stream-keys-wrong', f'target yielded {seen} times', -1)
            except Violation as exc:
                result['ok'] = False
                result['violation'] = exc.as_dict()
            except HarnessError:
                raise
            except Exception as exc:  # pylint: disable=broad-except
                if classify_exception(exc) == 'library':
                    result['ok'] = False
                    result['violation'] = {
                        'class': 'unexpected-exception:' + type(exc).__name__,
                        'detail': f'{exc!r}\n{short_tb(exc)}'[:2000],
                        'step': len(checker.outcomes),
                    }
                else:
                    raise
    except Exception as exc:  # pylint: disable=broad-except
        result['ok'] = False
        result['error'] = f'{exc!r}\n{short_tb(exc, 10)}'
    finally:
        for handle in (cont, cleaner):
            if handle is not None:
                try:
                    handle.close()
                except Exception:  # pylint: disable=broad-except
                    pass
        prog = case['program']
        result.update(
            {
                'digest': SIM.digest.hexdigest(),
                'steps': SIM.step,
                'evals': 1,
                'nontrivial': len(prog) >= 3 and any(s[0] == 'seek' for s in prog),
                'behaviour': hashlib.sha1(
                    json.dumps([case['form'], case['entry'], prog, checker.outcomes], default=str).encode()
                ).hexdigest()[:16],
                'ops': {case['form']: 1, 'entry_' + case['entry']: 1},
                'faults': {'cleaner_runs_between_steps': probes['cleans']},
                'probes': {
                    'switched_to_loose_cache': probes['cache_used'],
                    'out_of_range_seeks': sum(1 for o in checker.outcomes if o[0] in 'xo'),
                    'lowered_knobs': int(case.get('knobs') != DEFAULT_KNOBS),
                    'big_object': int(len(content) > 65536),
                    'companion_stream_steps': probes.get('companion_steps', 0),
                },
                'kinds': dict(SIM.kinds),
            }
        )
        SIM.reset(None)
        drop_scratch(root)
    return result


def lift(case, result):
    """Lowered decompresser chunk: re-run at shipped constants, then with the content scaled up (DESIGN 2.9)."""
    if result['ok'] or result.get('error') or case.get('knobs') == DEFAULT_KNOBS:
        return case, result, None
    from .shrink import vclass  # pylint: disable=import-outside-toplevel

    klass = vclass(result)
    lifted = dict(case, knobs=dict(DEFAULT_KNOBS))
    res2 = execute(lifted)
    if vclass(res2) == klass and not res2.get('error'):
        return lifted, res2, 'lifted-as-is'
    knobs = case['knobs']
    factor = max(DEFAULT_KNOBS['zchunk'] // max(1, knobs['zchunk']), 1)
    kind, length, sseed = case['content']
    if factor > 1 and length:
        # the program's read sizes are scaled too, so that the same buffer boundaries are crossed
        for new_len in (min(length * factor, 3_000_000), 1_200_000):
            prog = []
            for step in case['program']:
                if step[0] == 'read' and isinstance(step[1], int) and 0 < step[1] < 10**7:
                    prog.append(['read', min(step[1] * factor, 10**7)])
                else:
                    prog.append(step)
            for program in (prog, case['program']):
                scaled = dict(case, knobs=dict(DEFAULT_KNOBS), content=['rand' if kind != 'empty' else kind, new_len, sseed], program=program)
                res3 = execute(scaled)
                if vclass(res3) == klass and not res3.get('error'):
                    return scaled, res3, 'lifted-scaled'
    ok = dict(result, ok=True, candidate=result['violation'], violation=None)
    return case, ok, 'knob-only-candidate'


def shrink(case, budget_s=60.0):
    from . import shrink as shr  # pylint: disable=import-outside-toplevel

    def simplify(cur):
        if cur.get('cleaner'):
            yield dict(cur, cleaner=False)
        if cur['entry'] != 'stream':
            yield dict(cur, entry='stream')
        kind, length, sseed = cur['content']
        if length > 4:
            yield dict(cur, content=[kind, length // 2, sseed])
            yield dict(cur, content=[kind, length - 1, sseed])
        if cur.get('knobs') != DEFAULT_KNOBS:
            yield dict(cur, knobs=dict(DEFAULT_KNOBS))

    return shr.shrink_case(case, execute, list_keys=('program',), budget_s=budget_s, simplify=simplify)
