"""Worker interpreter: reads JSON jobs on stdin, writes one JSON result per line on stdout.

Started by runner.py with a fixed PYTHONHASHSEED (the hash lane). Jobs:
  {"cmd": "run", "prop": "C02", "index": 17, "base": 0, "tier": "quick"}    generate + execute (+ lift)
  {"cmd": "gen", "prop": "C02", "index": 17, "base": 0, "tier": "quick"}    generate only (case of a run that hangs)
  {"cmd": "case", "case": {...}}                                               execute an explicit case (replay)
  {"cmd": "shrink", "case": {...}, "budget": 60}                              minimise a failing case
"""

from __future__ import annotations

import faulthandler
import json
import os
import sys
import time
import traceback


def handle(job):
    from . import dispatch  # pylint: disable=import-outside-toplevel

    started = time.time()
    cmd = job['cmd']
    if cmd == 'run':
        case = dispatch.generate(job['prop'], job['index'], job['base'], job['tier'])
        result = dispatch.execute(case)
        note = None
        if not result['ok'] and not result.get('error'):
            case, result, note = dispatch.lift(case, result)
        out = {'index': job['index'], 'seed': case.get('seed'), 'result': result, 'lift': note}
        if not result['ok'] or job.get('want_case') or result.get('candidate'):
            out['case'] = case
        elif job.get('want_sample'):
            out['sample'] = sample_of(case)
    elif cmd == 'gen':
        out = {'case': dispatch.generate(job['prop'], job['index'], job['base'], job['tier'])}
    elif cmd == 'case':
        result = dispatch.execute(job['case'])
        out = {'result': result}
    elif cmd == 'shrink':
        case, result = dispatch.shrink(job['case'], job.get('budget', 60))
        out = {'case': case, 'result': result}
    else:
        raise ValueError(cmd)
    out['wall'] = time.time() - started
    return out


def sample_of(case):
    """A compact, human-readable rendering of a case for the evidence file."""
    out = {k: v for k, v in case.items() if k in ('engine', 'prop', 'seed', 'config', 'knobs', 'handles', 'sub', 'kind')}
    for key in ('ops', 'pre_ops', 'victim', 'actors', 'program', 'fault', 'policy', 'damage'):
        if key in case:
            val = case[key]
            out[key] = val[:12] if isinstance(val, list) else val
    return out


def main():
    faulthandler.enable()
    # real stdout is the protocol channel; anything the library prints goes to stderr
    proto = os.fdopen(os.dup(1), 'w', buffering=1)
    os.dup2(2, 1)
    sys.stdout = sys.stderr
    for line in sys.stdin:
        line = line.strip()
        if not line:
            continue
        job = json.loads(line)
        if job.get('cmd') == 'quit':
            break
        limit = job.get('limit')
        if limit:
            faulthandler.dump_traceback_later(limit, exit=True)
        try:
            out = handle(job)
        except Exception as exc:  # pylint: disable=broad-except
            out = {
                'index': job.get('index'),
                'result': {'ok': False, 'violation': None, 'error': f'worker: {exc!r}\n{traceback.format_exc()[-1500:]}'},
            }
        finally:
            if limit:
                faulthandler.cancel_dump_traceback_later()
        proto.write(json.dumps(out) + '\n')
        proto.flush()
