"""Engine A: content pool, reference model, interpreter of the abstract operation language (DESIGN.md 2.4).

A *case* is a JSON-able dict {config, config_b, knobs, pool, ops, ...}; the interpreter executes ``ops`` one by one on
real containers under the scratch root, applies them to the reference model (dict key -> bytes, keys computed with
hashlib here, never taken from the library) and calls the enabled oracles after every step.
"""

from __future__ import annotations

import hashlib
import io
import os
import random
import shutil

from .core import SIM, HarnessError, install


class Violation(Exception):
    """A property violation: (klass, detail)."""

    def __init__(self, klass, detail, step=None):
        super().__init__(f'{klass}: {detail}')
        self.klass = klass
        self.detail = detail
        self.step = step

    def as_dict(self):
        return {'class': self.klass, 'detail': str(self.detail)[:2000], 'step': self.step}


# ---------------------------------------------------------------------------------------------------------------------
# content pool


def make_content(spec):
    """spec = [kind, length, seed] -> bytes (pure function)."""
    kind, length, seed = spec
    rng = random.Random(seed)
    if kind == 'empty' or length == 0:
        return b''
    if kind == 'rand':
        return rng.randbytes(length)
    if kind == 'text':
        words = [b'lorem', b'ipsum', b'dolor', b'sit', b'amet', b'%d' % seed, b'\n', b'consectetur', b' ']
        out = bytearray()
        while len(out) < length:
            out += rng.choice(words)
        return bytes(out[:length])
    if kind == 'zeros':
        return bytes([seed % 256]) * length
    if kind == 'mixed':  # compressible head, incompressible tail (beyond the AUTO sampling window for big ones)
        head = make_content(['text', length // 2, seed])
        return head + rng.randbytes(length - len(head))
    if kind == 'mixed2':  # incompressible head, compressible tail
        head = rng.randbytes(length // 2)
        return head + make_content(['text', length - len(head), seed])
    if kind == 'headrun':  # a run of one byte (one long zlib match) followed by incompressible bytes
        head = min(length, 300 + seed % 4700)
        return bytes([seed % 251]) * head + rng.randbytes(length - head)
    if kind == 'periodic':
        # one incompressible block longer than zlib's 32 KiB window, repeated: a sparse sampler sees the same bytes again
        # and again (looks very compressible), a real deflate stream does not shrink at all
        period = [40000, 65536, 100000][seed % 3]
        block = rng.randbytes(min(period, length))
        return (block * (length // len(block) + 1))[:length]
    raise HarnessError(f'unknown content kind {kind}')


SMALL_LENGTHS = [1, 2, 3, 7, 16, 40, 100, 255, 256, 1000, 4095, 4096, 4097]
BIG_LENGTHS = [65535, 65536, 65537, 131071, 131072, 131073, 200000, 524287, 524288, 524289, 600000]


def make_pool_specs(rng, n_small=10, n_big=0, big_cap=None):
    specs = [['empty', 0, 0], ['zeros', 1, 97]]
    kinds = ['rand', 'text', 'zeros', 'mixed', 'mixed2']
    for _ in range(n_small):
        specs.append([rng.choice(kinds), rng.choice(SMALL_LENGTHS + [rng.randint(1, 3000)]), rng.randrange(1 << 30)])
    for _ in range(n_big):
        length = rng.choice(BIG_LENGTHS + [rng.randint(60000, 700000)])
        if big_cap:
            length = min(length, big_cap)
        kind = rng.choice(kinds + ['periodic'])
        if kind == 'periodic':
            length = rng.choice([524288, 8 * 40000, 10 * 65536, 6 * 100000, 400000])
            if big_cap:
                length = min(length, big_cap)
        specs.append([kind, length, rng.randrange(1 << 30)])
    return specs


def make_config(rng, small_targets=True):
    targets = [1, 50, 500, 70000, 4 * 1024**3] if small_targets else [4 * 1024**3]
    return {
        'hash_type': rng.choice(['sha256', 'sha1']),
        'loose_prefix_len': rng.choice([0, 1, 2, 2, 3]),
        'compression_algorithm': f'zlib+{rng.randint(1, 9)}',
        'pack_size_target': rng.choice(targets),
    }


DEFAULT_KNOBS = {'chunk': 65536, 'in_sql': 950, 'max_iter': 9500, 'zchunk': 524288}


def make_knobs(rng, lowered):
    if not lowered:
        return dict(DEFAULT_KNOBS)
    return {
        'chunk': rng.choice([1, 7, 100, 4096, 65536]),
        'in_sql': rng.choice([1, 2, 3, 5, 950]),
        'max_iter': rng.choice([0, 1, 2, 3, 4, 9500]),
        'zchunk': rng.choice([1, 2, 7, 64, 4096, 524288]),
    }


class Knobs:
    """Context manager setting the private class constants for one run and restoring them."""

    def __init__(self, knobs):
        self.knobs = knobs or DEFAULT_KNOBS
        self.saved = None

    def __enter__(self):
        lib = install()
        from disk_objectstore import utils  # pylint: disable=import-outside-toplevel

        cont = lib.Container
        zcls = utils.ZlibLikeBaseStreamDecompresser
        self.saved = (cont._CHUNKSIZE, cont._IN_SQL_MAX_LENGTH, cont._MAX_CHUNK_ITERATE_LENGTH, zcls._CHUNKSIZE)
        cont._CHUNKSIZE = self.knobs['chunk']
        cont._IN_SQL_MAX_LENGTH = self.knobs['in_sql']
        cont._MAX_CHUNK_ITERATE_LENGTH = self.knobs['max_iter']
        zcls._CHUNKSIZE = self.knobs['zchunk']
        return self

    def __exit__(self, *exc):
        lib = install()
        from disk_objectstore import utils  # pylint: disable=import-outside-toplevel

        cont = lib.Container
        zcls = utils.ZlibLikeBaseStreamDecompresser
        (cont._CHUNKSIZE, cont._IN_SQL_MAX_LENGTH, cont._MAX_CHUNK_ITERATE_LENGTH, zcls._CHUNKSIZE) = self.saved


# ---------------------------------------------------------------------------------------------------------------------
# caller-side streams


class ShortReadStream:
    """A legal binary stream whose ``read(n)`` returns between 1 and n bytes (seeded)."""

    mode = 'rb'
    closed = False

    def __init__(self, data, seed, fail_at=None):
        self._data = data
        self._pos = 0
        self._rng = random.Random(seed)
        self.reads = 0
        self.short = 0
        self._fail_at = fail_at

    def read(self, size=-1):
        self.reads += 1
        if self._fail_at is not None and self.reads > self._fail_at:
            raise OSError(5, 'source stream failed (injected)')
        remaining = len(self._data) - self._pos
        if size is None or size < 0:
            size = remaining
        size = min(size, remaining)
        if size > 1 and self._rng.random() < 0.7:
            new = self._rng.randint(1, size)
            if new < size:
                self.short += 1
            size = new
        out = self._data[self._pos : self._pos + size]
        self._pos += len(out)
        return out

    def seek(self, target, whence=0):
        if whence == 1:
            target += self._pos
        elif whence == 2:
            target += len(self._data)
        self._pos = max(0, target)
        return self._pos

    def tell(self):
        return self._pos

    @staticmethod
    def seekable():
        return True

    @staticmethod
    def readable():
        return True

    def __enter__(self):
        return self

    def __exit__(self, *exc):
        return None


class NoSeekStream:  # pylint: disable=too-few-public-methods
    """A caller stream that can only be read (a pipe, a socket, the library's own ZeroStream): no seek, no tell."""

    mode = 'rb'

    def __init__(self, data):
        self._stream = io.BytesIO(data)

    def read(self, size=-1):
        return self._stream.read(size)


class CallbackRecorder:
    def __init__(self):
        self.events = []

    def __call__(self, action, value):
        self.events.append(action)


# ---------------------------------------------------------------------------------------------------------------------
# world


def hkey(hash_type, data):
    return hashlib.new(hash_type, data).hexdigest()


def absent_key(hash_type, i):
    return hkey(hash_type, b'\x00absent-%d' % i)


def tree_digest(folder, skip_index=False):
    dig = hashlib.sha1()
    for dirpath, dirnames, filenames in os.walk(folder):
        dirnames.sort()
        dig.update(os.path.relpath(dirpath, folder).encode())
        for name in sorted(filenames):
            if skip_index and name.startswith('packs.idx'):
                continue
            dig.update(name.encode())
            with open(os.path.join(dirpath, name), 'rb') as handle:
                dig.update(hashlib.sha1(handle.read()).digest())
    return dig.hexdigest()


class Side:  # pylint: disable=too-few-public-methods
    """One container folder: its handles and its reference model."""

    def __init__(self, name, folder, config):
        self.name = name
        self.folder = folder
        self.config = config
        self.handles = []
        self.model = {}
        self.planted = set()  # keys with planted duplicates
        self.last_index_writer = None

    @property
    def hash_type(self):
        return self.config['hash_type']


class World:  # pylint: disable=too-many-instance-attributes,too-many-public-methods
    """Real containers + reference models + interpreter."""

    def __init__(self, root, case, oracle=None):
        self.lib = install()
        self.root = root
        self.case = case
        self.pool_specs = case['pool']
        self._pool_cache = {}
        self.oracle = oracle  # callable(world, side, op, info) after every step
        self.sides = {}
        self.step_index = -1
        self.stats = {'ops': {}, 'skipped': 0, 'short_reads': 0, 'pending_batches': 0}
        self.last_info = None
        os.makedirs(os.path.join(root, 'inputs'), exist_ok=True)
        self._input_counter = 0

    # -- setup -------------------------------------------------------------------------------------------------
    def content(self, idx):
        idx %= len(self.pool_specs)
        if idx not in self._pool_cache:
            self._pool_cache[idx] = make_content(self.pool_specs[idx])
        return self._pool_cache[idx]

    def create_side(self, name, config, nhandles=1):
        folder = os.path.join(self.root, name)
        side = Side(name, folder, config)
        cont = self.lib.Container(folder)
        cont.init_container(clear=False, **config)
        side.handles.append(cont)
        for _ in range(nhandles - 1):
            side.handles.append(self.lib.Container(folder))
        self.sides[name] = side
        return side

    def adopt_side(self, name, folder, config, model, nhandles=1):
        side = Side(name, folder, config)
        side.model = dict(model)
        for _ in range(nhandles):
            side.handles.append(self.lib.Container(folder))
        self.sides[name] = side
        return side

    def close_all(self):
        for side in self.sides.values():
            for handle in side.handles:
                try:
                    handle.close()
                except Exception:  # pylint: disable=broad-except
                    pass

    def side(self, op):
        return self.sides[op.get('t', 'c')]

    def handle(self, side, op):
        return side.handles[op.get('h', 0) % len(side.handles)]

    def model_key(self, side, j):
        keys = sorted(side.model)
        if not keys:
            return None
        return keys[j % len(keys)]

    def new_input_file(self, data):
        self._input_counter += 1
        path = os.path.join(self.root, 'inputs', f'in{self._input_counter}')
        with open(path, 'wb') as handle:
            handle.write(data)
        return path

    # -- interpreter ---------------------------------------------------------------------------------------------
    def run(self, ops, start=0):
        for i, op in enumerate(ops):
            self.step_index = start + i
            self.step(op)

    INDEX_WRITERS = ('add_pack', 'pack_loose', 'repack', 'repack_pack', 'delete', 'import')

    def step(self, op):
        side = self.side(op)
        name = op['op']
        if len(side.handles) > 1 and (name in self.INDEX_WRITERS or (name == 'clean' and op.get('vacuum'))):
            # Index-writing maintenance is documented as one-process-at-a-time. When the maintenance role moves to
            # another handle, that handle is a *new* process (fresh handle): a long-open handle whose read snapshot
            # predates another handle's commit cannot upgrade to a write (SQLITE_BUSY_SNAPSHOT) - outside C01-C18.
            idx = op.get('h', 0) % len(side.handles)
            # 'stale_maintenance' histories: handle 0 is a long-open maintenance client that is never re-opened, every
            # other handle is a short-lived client (fresh before each index-writing operation). delete_objects is
            # documented as "no other process accessing": it always goes through handle 0 (see hist.generate).
            stale_mode = bool(self.case.get('stale_maintenance'))
            stale_ok = stale_mode and idx == 0 and name not in ('delete', 'import')  # (partial deletes are documented)
            maybe_stale = stale_ok  # its session may date from any earlier operation of this handle
            if (stale_mode and not stale_ok) or (not stale_mode and side.last_index_writer not in (None, idx)):
                side.handles[idx].close()
                side.handles[idx] = self.lib.Container(side.folder)
            side.last_index_writer = idx
        else:
            maybe_stale = False
        self.stats['ops'][name] = self.stats['ops'].get(name, 0) + 1
        pre = None
        if self.oracle is not None and hasattr(self.oracle, 'before'):
            pre = self.oracle.before(self, side, op)
        try:
            info = getattr(self, 'op_' + name)(side, op)
        except Exception as exc:  # pylint: disable=broad-except
            # 'stale_maintenance' histories: maintenance through a long-open handle whose snapshot predates another
            # handle's commit may *fail loudly* (SQLite's "database is locked" = SQLITE_BUSY_SNAPSHOT, or an error while
            # reading a pack through outdated offsets): nothing happened as far as the model is concerned, which the
            # generic oracles verify right after. What it may never do is succeed - or fail - and damage something.
            if isinstance(exc, Violation) or not maybe_stale:
                raise
            self.stats['refused_stale'] = self.stats.get('refused_stale', 0) + 1
            idx = op.get('h', 0) % len(side.handles)
            try:
                side.handles[idx].close()
            except Exception:  # pylint: disable=broad-except
                pass
            packdir = os.path.join(side.folder, 'packs')
            for lock in [n for n in os.listdir(packdir) if n.endswith('.lock')]:
                os.remove(os.path.join(packdir, lock))
            side.handles[idx] = self.lib.Container(side.folder)
            # a repack refused at its first index write leaves the (unreferenced) temporary pack behind: manual repair
            leftover = os.path.join(packdir, '-1')
            if os.path.exists(leftover):
                import sqlite3  # pylint: disable=import-outside-toplevel

                conn = sqlite3.connect(os.path.join(side.folder, 'packs.idx'))
                try:
                    referenced = conn.execute('SELECT COUNT(*) FROM db_object WHERE pack_id = -1').fetchone()[0]
                finally:
                    conn.close()
                if not referenced:
                    os.remove(leftover)
            info = {'refused': True}
            op = {'op': 'reopen', 'h': idx, 't': op.get('t', 'c')}  # the generic oracles still run: nothing may be damaged
        self.last_info = info
        if name in ('repack', 'repack_pack', 'delete') and len(side.handles) > 1:
            # repack and delete are maintenance operations for which no other client may be using the container
            # (objects move inside the packs / disappear): the other clients are new processes afterwards. A handle
            # kept open across them would read the rewritten pack through its old index snapshot - outside C01-C18.
            keep = op.get('h', 0) % len(side.handles)
            for i, other in enumerate(side.handles):
                if i != keep:
                    other.close()
                    side.handles[i] = self.lib.Container(side.folder)
        if self.oracle is not None:
            self.oracle.after(self, side, op, info, pre)
        return info

    def fail(self, klass, detail):
        raise Violation(klass, detail, self.step_index)

    def make_stream(self, data, via, seed):
        if via == 'short':
            return ShortReadStream(data, seed)
        if via == 'file':
            return open(self.new_input_file(data), 'rb')  # pylint: disable=consider-using-with
        if via == 'noseek':
            return NoSeekStream(data)
        if via == 'offset':
            # a caller stream that is not positioned at its start (e.g. a header was consumed before handing it over)
            stream = io.BytesIO(self.offset_prefix(seed) + data)
            stream.seek(len(self.offset_prefix(seed)))
            return stream
        return io.BytesIO(data)

    @staticmethod
    def offset_prefix(seed):
        return b'HDR%d:' % (seed % 1000)

    def stored_from_offset_stream(self, side, got, data, seed, where):
        """What a stream handed over at a non-zero position stores: the bytes from its position on - or, on the one path
        that documents a rewind (no_holes with a second pass), the whole stream. Either way the key handed back must be
        the digest of exactly the bytes that are then stored under it (the views / raw oracles check that)."""
        whole = self.offset_prefix(seed) + data
        if got == hkey(side.hash_type, data):
            return data
        if got == hkey(side.hash_type, whole):
            return whole
        self.fail('wrong-key', f'{where}: stream handed over at offset {len(whole) - len(data)}: returned key {got} is neither the digest of the remaining bytes nor of the whole stream')
        return None

    # each op_* returns an info dict (consumed by oracles)
    def op_add_loose(self, side, op):
        handle = self.handle(side, op)
        if 'from_key' in op:
            key0 = self.model_key(side, op['from_key'])
            if key0 is None:
                self.stats['skipped'] += 1
                return {'skipped': True}
            data = side.model[key0]
        else:
            data = self.content(op['c'])
        expected = hkey(side.hash_type, data)
        via = op.get('via', 'bytes')
        if via == 'bytes':
            got = handle.add_object(data)
        else:
            stream = self.make_stream(data, via, op.get('seed', 0))
            try:
                got = handle.add_streamed_object(stream)
            finally:
                if via == 'file':
                    stream.close()
                if via == 'short':
                    self.stats['short_reads'] += stream.short
        if via == 'offset':
            data = self.stored_from_offset_stream(side, got, data, op.get('seed', 0), 'add_streamed_object')
            expected = got
        if got != expected:
            self.fail('wrong-key', f'add_loose via={via} returned {got} expected {expected} len={len(data)}')
        side.model[expected] = data
        return {'added': [expected]}

    def op_add_pack(self, side, op):
        handle = self.handle(side, op)
        datas = [self.content(c) for c in op['cs']]
        if op.get('mass'):
            # real batch sizes: more distinct tiny objects than the library's 1000-row paging / flushing granularity
            datas = datas + [b'mass-%d-%d' % (op.get('seed', 0), i) for i in range(op['mass'])]
        expected = [hkey(side.hash_type, d) for d in datas]
        kwargs = {
            'compress': bool(op.get('compress', False)),
            'no_holes': bool(op.get('no_holes', False)),
            'no_holes_read_twice': bool(op.get('read_twice', True)),
            'do_fsync': bool(op.get('do_fsync', True)),
        }
        pending_datas = []
        if op.get('pending') and datas:
            # the documented "many calls, one commit" pattern: earlier calls of the same logical batch pass
            # do_commit=False, the last one (below) commits; every key handed back must be stored once it returned
            for j, batch in enumerate(op['pending']):
                pdatas = [self.content(c) for c in batch]
                if j % 2 == 0:
                    pgot = handle.add_objects_to_pack(pdatas, do_commit=False, **kwargs)
                else:
                    pgot = [handle.add_streamed_object_to_pack(io.BytesIO(d), do_commit=False, **kwargs) for d in pdatas]
                pexp = [hkey(side.hash_type, d) for d in pdatas]
                if list(pgot) != pexp:
                    self.fail('wrong-key', f'add_pack (do_commit=False) returned {pgot} expected {pexp}')
                pending_datas += pdatas
            self.stats['pending_batches'] += len(op['pending'])
        recorder = CallbackRecorder() if op.get('callback') else None
        api = op.get('api', 'objects')
        via = op.get('via', 'bytesio')
        if via == 'noseek' and kwargs['no_holes'] and kwargs['no_holes_read_twice']:
            via = 'bytesio'  # the second pass documents that it rewinds the stream: needs a seekable one
        lazies = []
        if api == 'objects':
            got = handle.add_objects_to_pack(datas, callback=recorder, **kwargs)
        elif api == 'streams':
            if via == 'lazy':
                from disk_objectstore.utils import LazyOpener  # pylint: disable=import-outside-toplevel
                from pathlib import Path  # pylint: disable=import-outside-toplevel

                lazies = [LazyOpener(Path(self.new_input_file(d))) for d in datas]
                got = handle.add_streamed_objects_to_pack(lazies, open_streams=True, callback=recorder, **kwargs)
            else:
                streams = [self.make_stream(d, via, op.get('seed', 0) + i) for i, d in enumerate(datas)]
                got = handle.add_streamed_objects_to_pack(streams, callback=recorder, **kwargs)
                for stream in streams:
                    if isinstance(stream, ShortReadStream):
                        self.stats['short_reads'] += stream.short
        else:  # single
            got = []
            for i, data in enumerate(datas):
                stream = self.make_stream(data, via if via != 'lazy' else 'bytesio', op.get('seed', 0) + i)
                got.append(
                    handle.add_streamed_object_to_pack(
                        stream, callback=recorder, callback_size_hint=len(data) if recorder else 0, **kwargs
                    )
                )
        if via == 'offset' and api in ('streams', 'single') and len(got) == len(datas):
            datas = [
                self.stored_from_offset_stream(side, key, data, op.get('seed', 0) + i, f'add_pack api={api}')
                for i, (key, data) in enumerate(zip(got, datas))
            ]
            expected = [hkey(side.hash_type, d) for d in datas]
        if list(got) != expected:
            self.fail('wrong-key', f'add_pack api={api} returned {got} expected {expected}')
        datas = pending_datas + datas
        expected = [hkey(side.hash_type, d) for d in datas]
        already = [k for k in expected if k in side.model]
        for key, data in zip(expected, datas):
            side.model[key] = data
        return {'added': expected, 'already': already, 'no_holes': kwargs['no_holes'], 'lazies': lazies}

    def compress_arg(self, value):
        from disk_objectstore.utils import CompressMode  # pylint: disable=import-outside-toplevel

        if isinstance(value, bool):
            return value
        return CompressMode(value)

    def op_pack_loose(self, side, op):
        handle = self.handle(side, op)
        recorder = CallbackRecorder() if op.get('callback') else None
        handle.pack_all_loose(
            compress=self.compress_arg(op.get('compress', 'no')),
            validate_objects=bool(op.get('validate', True)),
            do_fsync=bool(op.get('do_fsync', True)),
            callback=recorder,
            clean_loose_per_pack=bool(op.get('clean_per_pack', False)),
        )
        return {'mode': op.get('compress', 'no')}

    def op_clean(self, side, op):
        self.handle(side, op).clean_storage(vacuum=bool(op.get('vacuum', False)))
        return {}

    def op_repack(self, side, op):
        recorder = CallbackRecorder() if op.get('callback') else None
        self.handle(side, op).repack(compress_mode=self.compress_arg(op.get('mode', 'keep')), callback=recorder)
        return {'mode': op.get('mode', 'keep'), 'full': True}

    def op_repack_pack(self, side, op):
        packs = sorted(
            (n for n in os.listdir(os.path.join(side.folder, 'packs')) if n.isdigit()), key=int
        )
        if not packs:
            self.stats['skipped'] += 1
            return {'skipped': True}
        pack = packs[op.get('pack', 0) % len(packs)]
        recorder = CallbackRecorder() if op.get('callback') else None
        self.handle(side, op).repack_pack(pack, compress_mode=self.compress_arg(op.get('mode', 'keep')), callback=recorder)
        return {'mode': op.get('mode', 'keep'), 'pack': pack}

    def op_delete(self, side, op):
        handle = self.handle(side, op)
        present = []
        for j in op.get('keys', []):
            key = self.model_key(side, j)
            if key is not None and key not in present:
                present.append(key)
        if op.get('last_indexed'):
            # "undo": the objects indexed most recently (observed in the index, not predicted)
            import sqlite3  # pylint: disable=import-outside-toplevel

            with SIM.quiet():
                conn = sqlite3.connect(os.path.join(side.folder, 'packs.idx'))
                try:
                    rows = conn.execute('SELECT hashkey FROM db_object ORDER BY id DESC LIMIT ?', (int(op['last_indexed']),)).fetchall()
                finally:
                    conn.close()
            for (key,) in rows:
                if key in side.model and key not in present:
                    present.append(key)
        if op.get('mass_range'):
            # a run of consecutively inserted objects of an earlier mass batch (>= 1000 consecutive index ids)
            mseed, lo, hi = op['mass_range']
            for i in range(lo, hi):
                key = hkey(side.hash_type, b'mass-%d-%d' % (mseed, i))
                if key in side.model and key not in present:
                    present.append(key)
        extra_absent = []
        if 'concrete' in op:  # engine B: keys resolved once, so that a re-run targets the same objects
            extra_absent = [k for k in op['concrete'] if k not in side.model]
            present = [k for k in op['concrete'] if k in side.model]
        absent = extra_absent + [absent_key(side.hash_type, i) for i in range(op.get('absent', 0))]
        # C11 speaks of a *set* of keys: no repeated key in the request (a repeated key that has a stray duplicate
        # file makes delete_objects raise FileNotFoundError - recorded in DESIGN.md 4b, outside the property)
        request = present + absent
        random.Random(op.get('seed', 0)).shuffle(request)
        got = handle.delete_objects(request)
        expected = set(present)
        if len(got) != len(set(got)):
            self.fail('delete-return-repeats', f'{got}')
        if set(got) != expected:
            self.fail('delete-return-wrong', f'returned {sorted(got)} expected {sorted(expected)}')
        before = dict(side.model)
        for key in expected:
            del side.model[key]
        side.planted -= expected
        return {'deleted': sorted(expected), 'model_before': before}

    def op_loosen(self, side, op):
        handle = self.handle(side, op)
        from disk_objectstore.exceptions import NotExistent  # pylint: disable=import-outside-toplevel

        if op.get('absent'):
            try:
                handle.loosen_object(absent_key(side.hash_type, 7))
            except NotExistent:
                return {}
            self.fail('missing-exception', 'loosen_object(absent) did not raise NotExistent')
        key = op.get('concrete_key') or self.model_key(side, op.get('key', 0))
        if key is None:
            self.stats['skipped'] += 1
            return {'skipped': True}
        path = handle.loosen_object(key)
        with SIM.quiet():
            with open(path, 'rb') as fhandle:
                if fhandle.read() != side.model[key]:
                    self.fail('loosen-wrong-bytes', f'key={key[:12]}')
        return {'loosened': key}

    def op_import(self, side, op):
        """Import into ``side`` from the other side."""
        src = self.sides[op['src']]
        dst = side
        dsth = self.handle(dst, op)
        srch = src.handles[0]
        present = []
        for j in op.get('keys', []):
            key = self.model_key(src, j)
            if key is not None:
                present.append(key)
        absent = [absent_key(src.hash_type, i) for i in range(op.get('absent', 0))]
        request = present + absent
        if op.get('repeats'):
            request = request + request[: op['repeats']]
        random.Random(op.get('seed', 0)).shuffle(request)
        kind = op.get('kind', 'list')
        if kind == 'tuple':
            arg = tuple(request)
        elif kind == 'set':
            arg = set(request)
        elif kind == 'gen':
            arg = (k for k in request)
        else:
            arg = list(request)
        recorder = CallbackRecorder() if op.get('callback') else None
        dst_before = dict(dst.model)
        tmb = op.get('tmb', 104857600)
        if isinstance(tmb, list):
            # symbolic budget ['sum', k, delta]: the total size of the first k distinct requested objects (+ delta), so that
            # "fits", "flush the cache first" and "too big for the cache" all occur within one call, in mixed order
            sizes = [len(src.model[k]) for k in dict.fromkeys(present)]
            tmb = max(1, sum(sizes[: tmb[1]]) + tmb[2]) if sizes else 1
        mapping = dstimport = dsth.import_objects(
            arg,
            srch,
            compress=bool(op.get('compress', False)),
            target_memory_bytes=tmb,
            callback=recorder,
            do_fsync=bool(op.get('do_fsync', True)),
        )
        del dstimport
        for old, new in mapping.items():
            if old not in src.model:
                self.fail('import-mapping-unknown-source', f'old={old[:12]}')
            if new != hkey(dst.hash_type, src.model[old]):
                self.fail('import-mapping-wrong', f'old={old[:12]} new={new[:12]}')
        for key in set(present):
            data = src.model[key]
            dst.model[hkey(dst.hash_type, data)] = data
        return {'requested': sorted(set(present)), 'mapping': mapping, 'dst_before': dst_before, 'src': src.name}

    def op_read(self, side, op):
        """Read some objects the way a client would (single / bulk / chunked stream with a seek / metadata) and compare
        with the model. Under an injected fault the call may raise; it may never hand back wrong bytes or a wrong size."""
        handle = self.handle(side, op)
        keys = [k for k in dict.fromkeys(self.model_key(side, j) for j in op.get('keys', [0])) if k]
        if not keys:
            self.stats['skipped'] += 1
            return {'skipped': True}
        how = op.get('how', 'single')
        if how == 'single':
            for key in keys:
                got = handle.get_object_content(key)
                if got != side.model[key]:
                    self.fail('wrong-bytes', f'get_object_content key={key[:12]} got len {len(got)} expected {len(side.model[key])}')
        elif how == 'bulk':
            got = handle.get_objects_content(keys, skip_if_missing=bool(op.get('skip', True)))
            for key in keys:
                if got.get(key) != side.model[key]:
                    self.fail('wrong-bytes', f'get_objects_content key={key[:12]}: {"missing" if got.get(key) is None else len(got[key])} expected {len(side.model[key])}')
        elif how == 'meta':
            metas = dict(handle.get_objects_meta(keys))
            for key in keys:
                if metas[key].size != len(side.model[key]):
                    self.fail('wrong-size', f'get_objects_meta key={key[:12]} size={metas[key].size} expected {len(side.model[key])}')
        else:  # chunked streams, with a seek to the end and back (forces the loose cache of compressed packed objects)
            with handle.get_objects_stream_and_meta(keys) as triplets:
                for key, stream, meta in triplets:
                    data = side.model[key]
                    if meta.size != len(data):
                        self.fail('wrong-size', f'stream meta key={key[:12]} size={meta.size} expected {len(data)}')
                    head = stream.read(3)
                    end = stream.seek(0, 2)
                    stream.seek(min(1, len(data)))
                    rest = b''
                    while True:
                        chunk = stream.read(op.get('chunk', 1000))
                        if not chunk:
                            break
                        rest += chunk
                    if head != data[:3] or end != len(data) or rest != data[min(1, len(data)):]:
                        self.fail('wrong-bytes', f'stream key={key[:12]}: head/seek/rest differ from the {len(data)} stored bytes')
        return {'read': keys}

    def op_reopen(self, side, op):
        idx = op.get('h', 0) % len(side.handles)
        side.handles[idx].close()
        side.handles[idx] = self.lib.Container(side.folder)
        return {}

    def op_reinit(self, side, op):
        with SIM.quiet():
            before = tree_digest(side.folder, skip_index=True)
        cont = self.lib.Container(side.folder)
        try:
            try:
                cont.init_container(**side.config)
            except FileExistsError:
                pass
            else:
                self.fail('reinit-not-refused', 'init_container on an initialised container did not raise')
        finally:
            cont.close()
        with SIM.quiet():
            after = tree_digest(side.folder, skip_index=True)
        if before != after:
            self.fail('reinit-changed-folder', 'folder bytes differ after refused init_container')
        return {}

    def op_reinit_clear(self, side, op):
        """init_container(clear=True) through an open handle: an empty container with the same configuration, and the
        handle goes on being used (its cached configuration, pack id and sessions must not survive the wipe)."""
        idx = op.get('h', 0) % len(side.handles)
        side.handles[idx].init_container(clear=True, **side.config)
        side.model = {}
        side.planted = set()
        for i, other in enumerate(side.handles):
            if i != idx:  # the other clients are new processes after a wipe
                other.close()
                side.handles[i] = self.lib.Container(side.folder)
        side.last_index_writer = None
        return {'cleared': True}

    def op_plant_duplicate(self, side, op):
        key = self.model_key(side, op.get('key', 0))
        if key is None:
            self.stats['skipped'] += 1
            return {'skipped': True}
        data = side.model[key] if op.get('good', True) else b'garbage' + key.encode()
        with SIM.quiet():
            path = os.path.join(side.folder, 'duplicates', f'{key}.{SIM.next_uuid_hex()}')
            with open(path, 'wb') as fhandle:
                fhandle.write(data)
        side.planted.add(key)
        return {'planted': key}

    def op_damage_readd(self, side, op):
        """Damage the loose copy of a key (if it has one), then store the same content again (C09)."""
        key = self.model_key(side, op.get('key', 0))
        if key is None:
            self.stats['skipped'] += 1
            return {'skipped': True}
        handle = self.handle(side, op)
        path = str(handle._get_loose_path_from_hashkey(key))  # pylint: disable=protected-access
        if not os.path.exists(path):
            self.stats['skipped'] += 1
            return {'skipped': True}
        data = side.model[key]
        how = op.get('how', 'flip')
        with SIM.quiet():
            if how == 'empty' or not data:
                bad = b'x' if not data else b''
            elif how == 'trunc':
                bad = data[: len(data) // 2]
            else:
                pos = op.get('pos', 0) % len(data)
                bad = data[:pos] + bytes([data[pos] ^ (1 << (op.get('bit', 0) % 8))]) + data[pos + 1 :]
            with open(path, 'wb') as fhandle:
                fhandle.write(bad)
        via = op.get('via', 'bytes')
        if via == 'bytes':
            got = handle.add_object(data)
        elif via == 'short':
            got = handle.add_streamed_object(self.make_stream(data, 'short', op.get('seed', 0)))
        else:
            # through the direct-to-pack path: 'pack' (holes allowed), 'pack_nh2' (no_holes, read twice), 'pack_nh1'
            got = handle.add_objects_to_pack(
                [data],
                compress=bool(op.get('compress', False)),
                no_holes=via != 'pack',
                no_holes_read_twice=via != 'pack_nh1',
            )[0]
        if got != key:
            self.fail('wrong-key', f'damage_readd returned {got} expected {key}')
        if via in ('bytes', 'short'):
            with SIM.quiet():
                with open(path, 'rb') as fhandle:
                    now = fhandle.read()
            if now != data:
                self.fail('damaged-loose-not-repaired', f'key={key[:12]} how={how} loose file still wrong after re-adding')
        else:
            # a correct copy must be in place: the object reads back right (the packed copy takes precedence) ...
            with SIM.quiet():
                now = handle.get_object_content(key)
            if now != data:
                self.fail(
                    'damaged-loose-not-repaired',
                    f'key={key[:12]} how={how} via={via}: content re-added through the pack path, but the object still reads back damaged',
                )
            # ... and the usual clean-up then drops the damaged, now redundant loose copy
            handle.clean_storage()
            if os.path.exists(path):
                with SIM.quiet():
                    with open(path, 'rb') as fhandle:
                        now = fhandle.read()
                if now != data:
                    self.fail('damaged-loose-not-repaired', f'key={key[:12]} via={via}: damaged loose copy survives clean_storage')
        return {'readded': key}


def snapshot_folder(src, dst):
    shutil.copytree(src, dst)
