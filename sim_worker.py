"""Entry point of a worker interpreter (see sim/workerlib.py). Not run with -m, so no module is loaded twice."""
import os
import sys

sys.path.insert(0, os.path.dirname(os.path.abspath(__file__)))
from sim import workerlib  # noqa: E402

workerlib.main()
