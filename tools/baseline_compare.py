#!/venv/bin/python
"""Run the pinned baseline command on /repo (guard off - there are no hooks) and compare with BASELINE.json."""
import json
import subprocess
import sys
import xml.etree.ElementTree as ET

base = json.load(open('/root/.vp/BASELINE.json'))
out = sys.argv[1] if len(sys.argv) > 1 else '/dev/shm/baseline.junit.xml'
cmd = base['cmd'].replace('<file>', out)
print(cmd, flush=True)
subprocess.run(cmd, shell=True, check=False, stdout=subprocess.DEVNULL, stderr=subprocess.DEVNULL)
passed = set()
failed = set()
for case in ET.parse(out).getroot().iter('testcase'):
    name = f"{case.get('classname')}::{case.get('name')}"
    if case.find('failure') is not None or case.find('error') is not None:
        failed.add(name)
    elif case.find('skipped') is None:
        passed.add(name)
stable = set(base['stable_pass'])
missing = sorted(stable - passed)
print(f'passed {len(passed)}, failed {len(failed)}, stable_pass {len(stable)}, stable not passing now: {len(missing)}')
for name in missing:
    print('  NOT PASSING:', name)
sys.exit(1 if missing else 0)
