#!/venv/bin/python
"""Cross-check of the crash-image model (DESIGN.md 6): "copy the folder at a seam boundary without flushing the
library's buffers" must give the same on-disk state as really killing a process (SIGKILL) at that boundary.

For N generated engine-B cases: the pre-state is built once; (1) in this process the victim runs on copy A under the
recorder (one image per mutating boundary); (2) for a sample of boundaries k a forked child runs the same victim on a
fresh copy B_k and sends itself SIGKILL just before its k-th mutating seam call. The data directories (bytes) and the
index rows of B_k must equal image k.   usage: tools/crash_model_check.py [N]   -> selftest/crash_model.json
"""
import json
import os
import random
import shutil
import signal
import sys

HERE = os.path.dirname(os.path.dirname(os.path.abspath(__file__)))
sys.path.insert(0, HERE)
from sim import crash, rawread  # noqa: E402
from sim.core import SIM, install  # noqa: E402
from sim.hist import drop_scratch, new_scratch  # noqa: E402
from sim.world import Knobs, World, tree_digest  # noqa: E402


def state_of(folder):
    rows = [(r['hashkey'], r['pack_id'], r['offset'], r['length'], r['compressed'], r['size']) for r in rawread.read_state(folder).rows]
    digest = {}
    for sub in crash.DATA_DIRS:
        digest[sub] = tree_digest(os.path.join(folder, sub))
    return digest, sorted(rows)


def reset_sim_for_victim(case):
    SIM.fs_rng = random.Random(case['seed'] + 4242)
    SIM.uuid_counter = 1_000_000


def one(index):
    install()
    case = crash.generate('C05', 900_000 + index, 'quick', sub='crash')
    case['pending_add'] = None
    root = new_scratch()
    SIM.reset(root, seed=case['seed'], fs_rng=random.Random(case['seed'] + 17))
    compared = mismatches = 0
    try:
        with Knobs(case['knobs']):
            world = World(root, case, None)
            world.create_side('c', case['config'])
            if any(op.get('t') == 'b' or op.get('src') == 'b' for op in case['ops'] + [case['victim']]):
                world.create_side('b', case['config_b'])
            world.run(case['ops'])
            side = world.sides['c']
            victim = dict(case['victim'])
            if victim['op'] == 'delete':
                victim['concrete'] = [k for k in dict.fromkeys(world.model_key(side, j) for j in victim.get('keys', [])) if k]
            if victim['op'] == 'loosen' and side.model:
                victim['concrete_key'] = world.model_key(side, victim.get('key', 0))
            model = dict(side.model)
            world.close_all()
            pre = os.path.join(root, 'pre')
            shutil.copytree(side.folder, pre)
            bside = world.sides.get('b')

            def fresh(tag):
                folder = os.path.join(root, tag, 'c')
                os.makedirs(os.path.dirname(folder))
                shutil.copytree(pre, folder)
                wld = World(root, case, None)
                wld.adopt_side('c', folder, case['config'], model)
                if bside is not None:
                    wld.adopt_side('b', bside.folder, case['config_b'], bside.model)
                reset_sim_for_victim(case)
                return wld, folder

            # (1) recorded run
            wld, folder_a = fresh('a')
            recorder = crash.Recorder(folder_a, os.path.join(root, 'img'), False)
            SIM.hooks.append(recorder)
            try:
                wld.step(victim)
            finally:
                SIM.hooks.remove(recorder)
            wld.close_all()
            images = {k: path for k, _, _, path in recorder.images}
            total = len(images)
            picks = sorted(set([0, total - 1] + [random.Random(index).randrange(total) for _ in range(4)])) if total else []
            # (2) really killed children
            for k in picks:
                wld, folder_b = fresh(f'b{k}')
                pid = os.fork()
                if pid == 0:
                    count = {'n': 0}

                    def killer(event):
                        if event[4]:
                            if count['n'] == k:
                                os.kill(os.getpid(), signal.SIGKILL)
                            count['n'] += 1
                        return None

                    SIM.hooks.append(killer)
                    try:
                        wld.step(victim)
                    finally:
                        os._exit(7)  # boundary not reached: must not happen
                _, status = os.waitpid(pid, 0)
                if not (os.WIFSIGNALED(status) and os.WTERMSIG(status) == signal.SIGKILL):
                    print(f'case {index} boundary {k}: child was not killed (status {status})')
                    mismatches += 1
                    continue
                with SIM.quiet():
                    killed, image = state_of(folder_b), state_of(images[k])
                compared += 1
                if killed != image:
                    mismatches += 1
                    print(f'case {index} victim {victim["op"]} boundary {k}/{total}: killed process state != image')
                wld.close_all()
    finally:
        SIM.reset(None)
        drop_scratch(root)
    return compared, mismatches, case['victim']['op']


def main():
    count = int(sys.argv[1]) if len(sys.argv) > 1 else 40
    total = bad = 0
    victims = {}
    for index in range(count):
        compared, mismatches, op = one(index)
        total += compared
        bad += mismatches
        victims[op] = victims.get(op, 0) + compared
    doc = {'cases': count, 'boundaries_compared': total, 'mismatches': bad, 'by_victim': victims}
    os.makedirs(os.path.join(HERE, 'selftest'), exist_ok=True)
    with open(os.path.join(HERE, 'selftest', 'crash_model.json'), 'w', encoding='utf8') as handle:
        json.dump(doc, handle, indent=1)
    print(doc)
    return 1 if bad else 0


if __name__ == '__main__':
    sys.exit(main())
