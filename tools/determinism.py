#!/venv/bin/python
"""Determinism self-test at scale (DESIGN.md 6): for every property, N runs are executed

  (a) inside their hash lane (a worker interpreter that executes many runs one after the other), and
  (b) alone, each in a fresh interpreter with the same PYTHONHASHSEED,

and the event-log digests, step counts and verdicts must agree. In addition the same run indices are executed under a
*different* PYTHONHASHSEED: for properties whose runs depend on set iteration order the digests must then differ for at
least one run (shows that the hash seed really is an input of the run and is not ignored).

usage: tools/determinism.py [N per property] [props...]     writes selftest/determinism.json
"""
import json
import os
import sys
import time
from concurrent.futures import ThreadPoolExecutor

HERE = os.path.dirname(os.path.dirname(os.path.abspath(__file__)))
sys.path.insert(0, HERE)
from sim import propinfo, runner  # noqa: E402


def lane_runs(prop, indices, hashseed, base):
    lane = runner.Lane(hashseed)
    out = {}
    try:
        for index in indices:
            res = lane.call({'cmd': 'run', 'prop': prop, 'index': index, 'base': base, 'tier': 'quick'}, 600)
            out[index] = res['result']
    finally:
        lane.close()
    return out


def single_run(prop, index, hashseed, base):
    return runner.run_single({'cmd': 'run', 'prop': prop, 'index': index, 'base': base, 'tier': 'quick'}, hashseed, 600)['result']


def sig(res):
    return (res.get('digest'), res.get('steps'), res.get('ok'), res.get('evals'))


def main():
    count = int(sys.argv[1]) if len(sys.argv) > 1 else 24
    props = sys.argv[2:] or sorted(propinfo.INFO)
    base = 7
    report = {}
    started = time.time()
    for prop in props:
        indices = list(range(count))
        hashseed = 11
        with ThreadPoolExecutor(max_workers=14) as pool:
            fut_lane = pool.submit(lane_runs, prop, indices, hashseed, base)
            fut_other = pool.submit(lane_runs, prop, indices, hashseed + 1, base)
            singles = list(pool.map(lambda i: single_run(prop, i, hashseed, base), indices))
            in_lane = fut_lane.result()
            other = fut_other.result()
        mismatches = [i for i in indices if sig(in_lane[i]) != sig(singles[i])]
        errors = [i for i in indices if in_lane[i].get('error') or singles[i].get('error')]
        differ_other = sum(1 for i in indices if other[i].get('digest') != in_lane[i].get('digest'))
        report[prop] = {
            'runs': count,
            'lane_vs_alone_mismatches': mismatches,
            'harness_errors': errors,
            'runs_whose_digest_changes_under_another_hashseed': differ_other,
        }
        print(prop, report[prop], flush=True)
    os.makedirs(os.path.join(HERE, 'selftest'), exist_ok=True)
    doc = {'runs_per_property': count, 'base_seed': base, 'wall_s': round(time.time() - started, 1), 'properties': report}
    with open(os.path.join(HERE, 'selftest', 'determinism.json'), 'w', encoding='utf8') as handle:
        json.dump(doc, handle, indent=1)
    bad = [p for p, r in report.items() if r['lane_vs_alone_mismatches'] or r['harness_errors']]
    print('non-deterministic or erroring:', bad or 'none')
    return 1 if bad else 0


if __name__ == '__main__':
    sys.exit(main())
