#!/bin/bash
# usage: tools/mk_scratch.sh <round-dir> <Cxx>...   creates <round-dir>/<Cxx>/repo (copy of /repo HEAD working tree with its own
# one-commit git history, so `git diff` gives the patch) and <round-dir>/<Cxx>/PROPERTY.json (the property's line, nothing else)
round=$1; shift
for id in "$@"; do
  d=$round/$id
  rm -rf "$d"; mkdir -p "$d/repo"
  rsync -a --exclude .git --exclude performance-benchmarks /repo/ "$d/repo"/
  (cd "$d/repo" && git init -q . && git add -A && git -c user.name=x -c user.email=x@x commit -q -m base)
  grep "\"id\": *\"$id\"" /verif/properties.jsonl > "$d/PROPERTY.json"
done
