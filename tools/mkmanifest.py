#!/venv/bin/python
"""Regenerate /verif/MANIFEST.json from sim/propinfo.py and the texts below (run after changing either)."""
import json
import os
import sys

HERE = os.path.dirname(os.path.dirname(os.path.abspath(__file__)))
sys.path.insert(0, HERE)
from sim import propinfo  # noqa: E402

ENGINE_OF = {
    'C01': 'A', 'C02': 'A', 'C03': 'A', 'C04': 'C', 'C05': 'B', 'C06': 'B', 'C07': 'S', 'C08': 'H', 'C09': 'A',
    'C10': 'A', 'C11': 'A', 'C12': 'A+D', 'C13': 'A+B', 'C14': 'A', 'C15': 'U', 'C16': 'A+K', 'C17': 'B', 'C18': 'A+R',
}

TECHNIQUE = {
    'A': 'deterministic simulation: seeded operation histories on the real library behind file/os/SQL seams, reference-model and raw-reader oracles after every step',
    'B': 'deterministic simulation with fault injection: crash / power-loss image or one I/O fault at enumerated seam-call boundaries of a victim operation',
    'C': 'deterministic simulation: seeded scheduler interleaving actor threads at every file-system call and SQL statement, acked-history oracle',
    'S': 'deterministic simulation: seeded stream programs in lock-step with io.BytesIO, cleaner interleaved at seam calls',
    'H': 'deterministic simulation: seeded sequential multi-handle histories, every handle checked against the reference model after every step',
    'U': 'deterministic simulation: backup actor (in-process rsync stub cross-checked against /usr/bin/rsync; the real rsync at phase granularity in a fraction of the runs) scheduled against writers/packer at seam-call granularity',
    'A+D': 'deterministic simulation: seeded histories with validate() after every step + storage-rot fault injection (bit flips, truncations, index perturbations) with read-back ground truth',
    'A+K': 'deterministic simulation: seeded histories under randomised lookup thresholds, bulk results vs single-key results vs model',
    'A+B': 'deterministic simulation: seeded repack-free histories with pack bytes compared before/after every step, plus fault injection: kill inside an operation then restart, and one failing seam call then the same handle continues',
    'A+R': 'deterministic simulation: seeded histories with descriptor census, seam open-file table and request-size / tracemalloc monitors',
}

TEXT = {
    'C01': 'Seeded exploration of every write path x configuration x content class (incl. legal short reads from caller streams and lowered chunk constants); finds wrong keys / wrong bytes for the sampled inputs only. The property has no schedule or crash in it; what simulation adds is the stream seam and constant randomisation.',
    'C02': 'Seeded exploration of composed histories with all views compared to a key->bytes map after every step; sampling, not proof.',
    'C03': 'Same histories read with sqlite3+zlib only (no library code) after every step.',
    'C04': 'Seeded search over interleavings of writers, readers and one packer at the granularity of every file-system call and SQL statement, replayable decision lists; samples schedules, does not enumerate them.',
    'C05': 'Every (thorough) / a seeded sample of (quick) crash points of each victim operation kind is materialised as a folder image and verified raw and through a fresh handle.',
    'C06': 'Same boundaries with the adversarial power-loss image built from an fsync ledger.',
    'C07': 'Seeded stream programs against io.BytesIO in every storage form, with a cleaner removing the loose cache between and inside calls.',
    'C08': 'Seeded sequential histories over several handles; every handle queried after every step.',
    'C09': 'Recurrence-biased histories with unreferenced-byte accounting for no_holes and damaged-loose re-adds.',
    'C10': 'Chained compression modes with an affected-row diff of the raw index.',
    'C11': 'Delete subsets in every form followed by repack; pack tiling checked on raw bytes.',
    'C12': '(a) validate() after every step of seeded histories; (b) single damages enumerated / sampled on small containers with ground truth from reading every object.',
    'C13': 'Pack bytes and raw index compared before/after every step of repack-free histories over several handles, also when the history continues after a kill (new process on the crash image) or after an I/O error (same handle).',
    'C14': 'Import matrix between two independently configured containers.',
    'C15': 'The real backup_container driven through an in-process rsync stub (or, in a fraction of the runs, the real rsync), interleaved with writers and a pack-writer; every successful backup is opened as a container and verified.',
    'C16': 'Bulk vs single-key results under randomised thresholds; the stand-alone helper clause is checked by an adjunct exhaustive enumeration that is not a simulation result (DESIGN.md 5).',
    'C17': 'One fault per execution at every (thorough) / sampled (quick) seam call of each victim operation kind, then recovery and re-run.',
    'C18': 'Descriptor census and open-file table during histories and bulk reads; request sizes and tracemalloc peaks on large generated objects (evidence of boundedness, not a bound).',
}

NOTE = (
    'Trusted base: the harness (seams, reference model, raw reader, image builder), CPython, SQLite durability and atomic '
    'commit, tmpfs semantics. Interleaving / fault granularity = Python-visible calls. Sampled seeds, not exhaustive.'
)


def main():
    claimed = [line.strip() for line in open(os.path.join(HERE, 'tools', 'claimed.txt')) if line.strip()]
    checks = []
    for prop in sorted(propinfo.INFO):
        if prop not in claimed:
            continue
        info = propinfo.INFO[prop]
        eng = ENGINE_OF[prop]
        checks.append(
            {
                'property_id': prop,
                'quick_cmd': f'./check {prop} quick',
                'thorough_cmd': f'./check {prop} thorough',
                'evidence_file': f'/verif/evidence/{prop}.json',
                'replay_cmd_template': './check --replay {path}',
                'engine': eng,
                'level_claimed': {'category': info['level'], 'text': TEXT[prop], 'design_ref': f'DESIGN.md section 3, {prop}'},
                'level_note': NOTE,
                'technique': TECHNIQUE[eng],
            }
        )
    not_app = [
        {'property_id': prop, 'reason': 'no check registered in this revision (engine still being built; see DESIGN.md section 7 build order)'}
        for prop in sorted(propinfo.INFO)
        if prop not in claimed
    ]
    doc = {
        'version': 1,
        'setup_cmd': '/venv/bin/python /verif/tools/setup_check.py',
        'hooks': {
            'guard': 'DISK_OBJECTSTORE_VERIF',
            'enable': 'no hooks in /repo: all seams are installed from /verif at import time (module-global rebinding, SQLAlchemy engine events); the guard name is reserved but unused',
            'baseline_off_cmd': 'cd /repo && /venv/bin/python -m pytest -ra -q -p no:cacheprovider --timeout=900 --continue-on-collection-errors',
            'source_commits': [],
            'add_only': True,
        },
        'engines': [
            {'name': 'A', 'path': 'sim/hist.py', 'serves_properties': ['C01', 'C02', 'C03', 'C09', 'C10', 'C11', 'C12', 'C13', 'C14', 'C16', 'C18'], 'kind_free_text': 'sequential history simulator with reference model'},
            {'name': 'B', 'path': 'sim/crash.py', 'serves_properties': ['C05', 'C06', 'C13', 'C17'], 'kind_free_text': 'victim operation under crash / power-loss / I/O-fault injection'},
            {'name': 'C', 'path': 'sim/conc.py', 'serves_properties': ['C04'], 'kind_free_text': 'baton-scheduled multi-actor simulator'},
            {'name': 'D', 'path': 'sim/damage.py', 'serves_properties': ['C12'], 'kind_free_text': 'damage-at-rest injector'},
            {'name': 'S', 'path': 'sim/streams.py', 'serves_properties': ['C07'], 'kind_free_text': 'stream program interpreter'},
            {'name': 'H', 'path': 'sim/handles.py', 'serves_properties': ['C08'], 'kind_free_text': 'multi-handle sequential histories'},
            {'name': 'K', 'path': 'sim/bulk.py', 'serves_properties': ['C16'], 'kind_free_text': 'bulk-vs-single comparison + helper enumeration adjunct'},
            {'name': 'R', 'path': 'sim/resources.py', 'serves_properties': ['C18'], 'kind_free_text': 'resource monitors'},
            {'name': 'U', 'path': 'sim/backup.py', 'serves_properties': ['C15'], 'kind_free_text': 'backup actor with in-process rsync stub'},
        ],
        'checks': checks,
        'notes': 'Exit codes: 0 held, 1 VIOLATION (replay file written), 2 harness error / timeout / non-determinism. VERIF_SEED selects the batch; VERIF_REPO_DIR (default /repo) the tree that is imported.',
        'not_applicable': not_app,
    }
    with open(os.path.join(HERE, 'MANIFEST.json'), 'w', encoding='utf8') as handle:
        json.dump(doc, handle, indent=1)
    print(f'{len(checks)} checks, {len(not_app)} not claimed')


if __name__ == '__main__':
    main()
