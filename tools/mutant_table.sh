#!/bin/bash
# Run each own mutant (mutants/*.diff) against the checks expected to kill it; results -> /dev/shm/mutant_table.txt
cd "$(dirname "$0")/.."
declare -A want=(
 [m01_commit_before_flush]="C05 C06" [m02_unlink_before_commit]="C05 C04" [m03_no_sandbox_fsync]="C06" [m04_no_repack_fsync]="C06"
 [m05_no_session_refresh_in_fallback]="C04" [m08_no_seek0_after_read_twice]="C01 C02" [m10_estimate_no_restore]="C10 C03"
 [m11_keep_as_no]="C10" [m12_delete_skips_duplicates_of_loose_only]="C11" [m14_validate_no_size_check_uncompressed]="C12"
 [m16_loose_file_not_closed]="C18" [m17_lazyopener_not_closed]="C18" [m18_backup_packs_before_index]="C15"
 [m20_loose_published_when_exists_untrusted]="C09" [m21_clean_no_session_refresh]="C08 C04" [m23_import_cache_boundary]="C14"
 [r_D1_revert_fix]="C06 C18" [r_D2_revert_fix]="C02 C03 C09 C12 C13" [r_D3_revert_fix]="C07" [r_D4_revert_fix]="C08" [r_D5_revert_fix]="C15"
 [r_D6_revert_fix]="C14" [r_D7_revert_fix]="C07"
)
for f in mutants/*.diff; do
  name=$(basename $f .diff)
  [ -n "$1" ] && [[ "$name" != $1* ]] && continue
  echo "== $name"
  tools/try_mutant.sh $f ${want[$name]}
done
