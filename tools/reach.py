#!/venv/bin/python
"""Reach measurement (DESIGN.md 6 / 8.6): which lines and branches of the library do the simulated runs execute?

Runs N quick-tier runs of every property *in this process* under coverage.py (branch coverage, actor threads included)
and writes selftest/reach.json: per library module the executed / missing line numbers, and for the missing lines the
enclosing function. Lines that stay unexecuted point at workload or fault dimensions that no engine generates yet.

usage: tools/reach.py [N per property] [props...]
"""
import json
import os
import sys
import time

HERE = os.path.dirname(os.path.dirname(os.path.abspath(__file__)))
sys.path.insert(0, HERE)
REPO = os.environ.get('VERIF_REPO_DIR', '/repo')

import coverage  # noqa: E402


def main():
    count = int(sys.argv[1]) if len(sys.argv) > 1 else 40
    from sim import dispatch, propinfo  # pylint: disable=import-outside-toplevel

    props = sys.argv[2:] or sorted(propinfo.INFO)
    cov = coverage.Coverage(branch=True, include=[os.path.join(REPO, 'disk_objectstore', '*')], data_file=None, concurrency=['thread'])
    cov.start()
    started = time.time()
    ran = {}
    for prop in props:
        ok = 0
        for index in range(count):
            case = dispatch.generate(prop, index, 0, 'quick')
            res = dispatch.execute(case)
            if res.get('error'):
                print(f'{prop} run {index}: harness error {res["error"][:300]}', file=sys.stderr)
            elif not res['ok']:
                print(f'{prop} run {index}: violation {res["violation"]["class"]}', file=sys.stderr)
            else:
                ok += 1
        ran[prop] = ok
        print(f'{prop}: {ok}/{count} runs, {time.time() - started:.0f}s', file=sys.stderr, flush=True)
    cov.stop()
    report = {'runs_per_property': count, 'properties': ran, 'modules': {}}
    for name in ('container.py', 'utils.py', 'database.py', 'backup_utils.py', 'models.py', 'dataclasses.py', 'exceptions.py'):
        path = os.path.join(REPO, 'disk_objectstore', name)
        if not os.path.exists(path):
            continue
        try:
            _, statements, excluded, missing, _ = cov.analysis2(path)
        except coverage.CoverageException:
            continue
        analysis = cov._analyze(path)  # pylint: disable=protected-access
        arcs_missing = sorted(analysis.arcs_missing())
        report['modules'][name] = {
            'statements': len(statements),
            'executed': len(statements) - len(missing),
            'missing_lines': missing,
            'executed_lines': sorted(set(statements) - set(missing)),
            'missing_branches': [list(a) for a in arcs_missing if a[0] > 0 and a[1] > 0][:400],
        }
        print(f'{name}: {len(statements) - len(missing)}/{len(statements)} statements, {len(arcs_missing)} missing branches')
    with open(os.environ.get('REACH_OUT') or os.path.join(HERE, 'selftest', 'reach.json'), 'w', encoding='utf8') as handle:
        json.dump(report, handle, indent=1)


if __name__ == '__main__':
    main()
