#!/bin/bash
# usage: tools/replay_selftest.sh <patch.diff> <prop>
# Sensitivity + replay self-test: the check must fail on a mutated copy of /repo, the minimised replay file must reproduce
# the same violation class twice in fresh interpreters on the mutated copy, and must pass on the unmodified /repo.
patch=$(readlink -f "$1"); prop=$2
tag=rs-$$; copy=/tmp/mutrun-$tag; out=/tmp/mutout-$tag
rm -rf "$copy" "$out"; mkdir -p "$copy" "$out"
rsync -a --exclude .git --exclude docs --exclude performance-benchmarks /repo/ "$copy"/
(cd "$copy" && git init -q . && git apply --whitespace=nowarn "$patch") || { echo "PATCH DOES NOT APPLY"; exit 3; }
cd "$(dirname "$0")/.."
res=$(VERIF_REPO_DIR="$copy" VERIF_OUT_DIR="$out" ./check "$prop" quick 2>&1); code=$?
file=$(echo "$res" | grep -m1 '^VIOLATION' | sed 's/.*replay=//')
klass=$(echo "$res" | grep -m1 '^violation class:' | sed 's/violation class: //')
echo "check exit=$code class=[$klass] replay=$file"
if [ -n "$file" ]; then
  for i in 1 2; do
    r=$(VERIF_REPO_DIR="$copy" ./check --replay "$file" 2>&1); echo "  replay $i on mutated copy: exit=$? $(echo "$r" | grep -m1 '^replayed')"
  done
  r=$(./check --replay "$file" 2>&1); echo "  replay on /repo: exit=$? $(echo "$r" | grep -m1 -E '^replay|^replayed')"
fi
rm -rf "$copy" "$out"
