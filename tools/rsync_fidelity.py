#!/venv/bin/python
"""Stub fidelity: compare the in-process copier (sim/rsyncsim.py) with /usr/bin/rsync on generated trees.

For each seed: a random source tree, optionally a pre-existing destination (from an earlier sync of an older source) and a
--link-dest tree; the same arguments backup_container uses (-a, --exclude patterns, trailing slash or not). The resulting
destination trees must have identical names and bytes. Hard-link structure is compared only for files that are
unchanged in size, content *and* mtime (the stub decides by content, see rsyncsim docstring).
usage: tools/rsync_fidelity.py [N]
"""
import hashlib
import os
import random
import shutil
import subprocess
import sys

HERE = os.path.dirname(os.path.dirname(os.path.abspath(__file__)))
sys.path.insert(0, HERE)
from sim import rsyncsim  # noqa: E402

BASE = '/dev/shm/rsync-fidelity'


def make_tree(root, rng, names=None):
    os.makedirs(root, exist_ok=True)
    names = names or []
    for _ in range(rng.randint(1, 12)):
        depth = rng.randint(0, 2)
        parts = [rng.choice(['loose', 'packs', 'a', 'b', 'dup', 'sandbox']) for _ in range(depth)]
        name = rng.choice(['packs.idx', 'packs.idx-wal', 'packs.idx-shm', 'config.json', '0', '1', 'x', 'y', 'f%d' % rng.randint(0, 5)])
        rel = os.path.join(*parts, name) if parts else name
        full = os.path.join(root, rel)
        if os.path.isdir(full):
            continue
        try:
            os.makedirs(os.path.dirname(full), exist_ok=True)
        except (FileExistsError, NotADirectoryError):
            continue
        if os.path.isdir(full):
            continue
        try:
            with open(full, 'wb') as handle:
                handle.write(rng.randbytes(rng.choice([0, 1, 10, 5000, 70000])))
        except (NotADirectoryError, IsADirectoryError):
            continue
        names.append(rel)
    if rng.random() < 0.3:
        os.makedirs(os.path.join(root, 'emptydir'), exist_ok=True)
    return names


def mutate_tree(root, rng):
    for dirpath, _, files in os.walk(root):
        for name in files:
            path = os.path.join(dirpath, name)
            roll = rng.random()
            stat = os.stat(path)
            if roll < 0.2:
                with open(path, 'ab') as handle:
                    handle.write(rng.randbytes(rng.randint(1, 3000)))
            elif roll < 0.3:
                with open(path, 'wb') as handle:
                    handle.write(rng.randbytes(rng.randint(0, 3000)))
            elif roll < 0.35:
                os.unlink(path)
            if roll < 0.3:
                # a real modification happens later than the previous sync: make the mtime say so (the generated
                # trees are written within one timestamp tick, which rsync's size+mtime quick check cannot see)
                os.utime(path, ns=(stat.st_atime_ns, stat.st_mtime_ns + 2_000_000_000))
    make_tree(root, rng)
    for dirpath, _, files in os.walk(root):
        for name in files:
            path = os.path.join(dirpath, name)
            stat = os.stat(path)
            os.utime(path, ns=(stat.st_atime_ns, stat.st_mtime_ns + 2_000_000_000))


def snapshot(root):
    out = {}
    inodes = {}
    for dirpath, dirnames, files in os.walk(root):
        for name in dirnames:
            out[os.path.relpath(os.path.join(dirpath, name), root) + '/'] = 'dir'  # empty directories included
        for name in files:
            path = os.path.join(dirpath, name)
            with open(path, 'rb') as handle:
                stat = os.stat(path)
                # content, mtime, and whether the file is hard-linked to something outside the tree (--link-dest)
                out[os.path.relpath(path, root)] = (hashlib.sha1(handle.read()).hexdigest(), stat.st_mtime_ns, stat.st_nlink > 1)
    return out


def one(seed):
    rng = random.Random(seed)
    work = os.path.join(BASE, str(seed))
    shutil.rmtree(work, ignore_errors=True)
    src = os.path.join(work, 'src', 'container')
    make_tree(src, rng)
    excludes = rng.choice([[], ['loose', 'packs.idx', 'packs'], ['packs.idx*'], ['loose', 'packs.idx*', 'packs'], ['x']])
    if rng.random() < 0.5:
        # general filter rules: includes before excludes, anchored / unanchored, directory-only, '*' and '**'
        pats = ['/packs/0', '/packs/*', 'packs/*', '/container/packs/1', '/container/packs/*', 'a/', '/loose/', '*.idx', 'packs.idx-*', '**/x',
                'a/b', '/a/**', 'f?', '/packs', 'loose/*', '/*/0', 'dup', '[xy]', '/container/loose/***'[:-1]]
        excludes = [(rng.choice('+-'), rng.choice(pats)) for _ in range(rng.randint(1, 4))]
    trailing = rng.random() < 0.5
    dest_trailing = rng.random() < 0.3
    if rng.random() < 0.25:
        # the corner backup_container lives in: an empty source folder (loose/ of a container without loose objects)
        shutil.rmtree(os.path.join(src, 'loose'), ignore_errors=True)
        if os.path.isfile(os.path.join(src, 'loose')):
            os.unlink(os.path.join(src, 'loose'))
        os.makedirs(os.path.join(src, 'loose'))
    use_link = rng.random() < 0.5
    pre_dest = rng.random() < 0.4
    source_is_file = rng.random() < 0.15
    if source_is_file:
        files = [f for f in snapshot(src) if not f.endswith('/')]
        if not files:
            return True
        source = os.path.join(src, rng.choice(sorted(files)))
        trailing = False
    else:
        sub = rng.choice(['', '', 'loose', 'packs'])
        source = os.path.join(src, sub) if sub and os.path.isdir(os.path.join(src, sub)) else src
    dests = {}
    for who in ('real', 'stub'):
        dests[who] = os.path.join(work, who, 'dest')
        os.makedirs(os.path.dirname(dests[who]), exist_ok=True)
    link = os.path.join(work, 'prev')
    if use_link or pre_dest:
        # an older state of the source, synced somewhere before
        old = os.path.join(work, 'old', 'container')
        shutil.copytree(src, old, copy_function=shutil.copy2)
        subprocess.run(['rsync', '-a', old + '/', link + '/'], check=True)
        if pre_dest:
            for who in ('real', 'stub'):
                subprocess.run(['rsync', '-a', old + '/', dests[who] + '/'], check=True)
        shutil.rmtree(os.path.join(work, 'old'))
        mutate_tree(src, rng)
        if source_is_file and not os.path.isfile(source):
            return True
    rsyncsim.CLOCK.stamp_tree(src)  # logical mtimes on the source, as the simulation does before every transfer
    args = ['rsync', '-azh', '--no-whole-file']
    for pat in excludes:
        if isinstance(pat, tuple):
            args += ['--include' if pat[0] == '+' else '--exclude', pat[1]]
        else:
            args += ['--exclude', pat]
    if use_link:
        args += [f'--link-dest={link}']
    real = subprocess.run(args + [source + ('/' if trailing else ''), dests['real'] + ('/' if dest_trailing else '')], capture_output=True, text=True, check=False)
    try:
        rsyncsim.rsync(source, dests['stub'], link_dest=link if use_link else None, src_trailing_slash=trailing, excludes=excludes, dest_trailing_slash=dest_trailing)
        stub_ok = True
    except rsyncsim.RsyncFailed:
        stub_ok = False
    if (real.returncode == 0) != stub_ok:
        print(f'seed {seed}: exit status differs: rsync={real.returncode} stub_ok={stub_ok} {real.stderr[-200:]}')
        return False
    def snap_any(path):
        if os.path.isdir(path):
            return snapshot(path)
        if os.path.isfile(path):
            with open(path, 'rb') as handle:
                return {'<file>': handle.read()}
        return {}

    snap_real, snap_stub = snap_any(dests['real']), snap_any(dests['stub'])
    if snap_real != snap_stub:
        only_real = sorted(set(snap_real) - set(snap_stub))[:5]
        only_stub = sorted(set(snap_stub) - set(snap_real))[:5]
        diff = sorted(k for k in snap_real if k in snap_stub and snap_real[k] != snap_stub[k])[:5]
        print(f'seed {seed}: trees differ (excludes={excludes} trailing={trailing} link={use_link} pre={pre_dest} file={source_is_file}): only_real={only_real} only_stub={only_stub} differ={diff}')
        return False
    shutil.rmtree(work, ignore_errors=True)
    return True


def main():
    count = int(sys.argv[1]) if len(sys.argv) > 1 else 200
    bad = sum(0 if one(seed) else 1 for seed in range(count))
    print(f'{count} generated trees, {bad} disagreements between /usr/bin/rsync and the in-process copier')
    shutil.rmtree(BASE, ignore_errors=True)
    return 1 if bad else 0


if __name__ == '__main__':
    sys.exit(main())
