#!/bin/bash
# Run every registered quick (or $1) check, print one line per property, validate evidence against the schema.
tier=${1:-quick}
cd "$(dirname "$0")/.."
for p in $(cat tools/claimed.txt); do
  start=$(date +%s)
  out=$(./check $p $tier 2>&1); code=$?
  end=$(date +%s)
  echo "$p exit=$code wall=$((end-start))s $(echo "$out" | grep -E '^\[C[0-9]+\] runs' | sed 's/^\[C[0-9]*\] //')"
  if [ $code -ne 0 ]; then echo "$out" | tail -8; fi
done
python3-vt - <<'PY'
import json, jsonschema, glob
schema = json.load(open('/root/.vp/EVIDENCE.schema.json'))
bad = 0
for f in sorted(glob.glob('/verif/evidence/C*.json')):
    try:
        jsonschema.validate(json.load(open(f)), schema)
    except Exception as e:
        bad += 1
        print('INVALID', f, str(e)[:200])
print('evidence files valid' if not bad else f'{bad} invalid evidence files')
jsonschema.validate(json.load(open('/verif/MANIFEST.json')), json.load(open('/root/.vp/MANIFEST.schema.json')))
print('manifest valid')
PY
