#!/venv/bin/python
"""Run every kept seeded change (seeded/*/patch.diff) and every own mutant (mutants/*.diff) against the checks named in
its meta / in tools/mutant_table.sh and record exit code + violation class in selftest/seeded_matrix.json.
usage: tools/seeded_matrix.py [name-prefix]"""
import json
import os
import re
import subprocess
import sys

HERE = os.path.dirname(os.path.dirname(os.path.abspath(__file__)))
prefix = sys.argv[1] if len(sys.argv) > 1 else ''
out_path = os.path.join(HERE, 'selftest', 'seeded_matrix.json')
os.makedirs(os.path.dirname(out_path), exist_ok=True)
matrix = json.load(open(out_path)) if os.path.exists(out_path) else {}
jobs = []
for name in sorted(os.listdir(os.path.join(HERE, 'seeded'))):
    meta = json.load(open(os.path.join(HERE, 'seeded', name, 'meta.json')))
    props = list(dict.fromkeys([meta['property']] + meta.get('caught_by_checks', [])))
    jobs.append((name, os.path.join(HERE, 'seeded', name, 'patch.diff'), props))
for name, patch, props in jobs:
    if not name.startswith(prefix):
        continue
    res = subprocess.run([os.path.join(HERE, 'tools', 'try_mutant.sh'), patch] + props, capture_output=True, text=True, check=False)
    row = {}
    for line in res.stdout.splitlines():
        m = re.match(r'(C\d+) exit=(\d+) wall=(\d+)s class=\[(.*?)\]', line)
        if m:
            row[m.group(1)] = {'exit': int(m.group(2)), 'wall_s': int(m.group(3)), 'class': m.group(4)}
    matrix[name] = row
    print(name, {k: (v['exit'], v['class']) for k, v in row.items()}, flush=True)
    json.dump(matrix, open(out_path, 'w'), indent=1, sort_keys=True)
