#!/venv/bin/python
"""Run every kept seeded change (seeded/*/patch.diff) and every own mutant (mutants/*.diff) against the checks named in
its meta / in tools/mutant_table.sh and record exit code + violation class in selftest/seeded_matrix.json.
usage: tools/seeded_matrix.py [name-prefix or regex]"""
import json
import os
import re
import subprocess
import sys

HERE = os.path.dirname(os.path.dirname(os.path.abspath(__file__)))
prefix = sys.argv[1] if len(sys.argv) > 1 else ''
out_path = os.path.join(HERE, 'selftest', 'seeded_matrix.json')
os.makedirs(os.path.dirname(out_path), exist_ok=True)
matrix = json.load(open(out_path)) if os.path.exists(out_path) else {}
jobs = []
for name in sorted(os.listdir(os.path.join(HERE, 'seeded'))):
    meta = json.load(open(os.path.join(HERE, 'seeded', name, 'meta.json')))
    props = list(dict.fromkeys([meta['property']] + meta.get('caught_by_checks', [])))
    jobs.append((name, os.path.join(HERE, 'seeded', name, 'patch.diff'), props))
OWN = {
    'm01_commit_before_flush': ['C05', 'C06'], 'm02_unlink_before_commit': ['C05', 'C04'], 'm03_no_sandbox_fsync': ['C06'],
    'm04_no_repack_fsync': ['C06'], 'm05_no_session_refresh_in_fallback': ['C04'], 'm08_no_seek0_after_read_twice': ['C01', 'C02'],
    'm10_estimate_no_restore': ['C10'], 'm11_keep_as_no': ['C10'], 'm12_delete_skips_duplicates_of_loose_only': ['C11'],
    'm14_validate_no_size_check_uncompressed': ['C12'], 'm16_loose_file_not_closed': ['C18'], 'm17_lazyopener_not_closed': ['C18'],
    'm18_backup_packs_before_index': ['C15'], 'm20_loose_published_when_exists_untrusted': ['C09'], 'm21_clean_no_session_refresh': ['C08'],
    'm23_import_cache_boundary': ['C14'], 'm24_read_error_as_eof': ['C17'], 'r_D1_revert_fix': ['C06', 'C18'], 'r_D2_revert_fix': ['C02', 'C03', 'C09', 'C12', 'C13'],
    'r_D3_revert_fix': ['C07'], 'r_D4_revert_fix': ['C08'], 'r_D5_revert_fix': ['C15'], 'r_D6_revert_fix': ['C14'],
    'r_D7_revert_fix': ['C07'], 'r_D8_revert_fix': ['C11', 'C02'], 'r_D9_revert_fix': ['C06'], 'r_D10_revert_fix': ['C15'],
}
for name in sorted(OWN):
    path = os.path.join(HERE, 'mutants', name + '.diff')
    if os.path.exists(path):
        jobs.append(('own:' + name, path, OWN[name]))
for name, patch, props in jobs:
    if not (name.startswith(prefix) or re.search(prefix, name)):
        continue
    res = subprocess.run([os.path.join(HERE, 'tools', 'try_mutant.sh'), patch] + props, capture_output=True, text=True, check=False)
    row = {}
    for line in res.stdout.splitlines():
        m = re.match(r'(C\d+) exit=(\d+) wall=(\d+)s class=\[(.*?)\]', line)
        if m:
            row[m.group(1)] = {'exit': int(m.group(2)), 'wall_s': int(m.group(3)), 'class': m.group(4)}
    matrix[name] = row
    print(name, {k: (v['exit'], v['class']) for k, v in row.items()}, flush=True)
    json.dump(matrix, open(out_path, 'w'), indent=1, sort_keys=True)
