#!/venv/bin/python
"""MANIFEST.setup_cmd: nothing is compiled; verify the interpreter, the library location and the seams."""
import os
import sys

HERE = os.path.dirname(os.path.dirname(os.path.abspath(__file__)))
sys.path.insert(0, HERE)
os.environ.setdefault('VERIF_REPO_DIR', '/repo')
from sim import core  # noqa: E402

lib = core.install()
import sqlalchemy  # noqa: E402
import sqlite3  # noqa: E402

print('python', sys.version.split()[0], 'sqlalchemy', sqlalchemy.__version__, 'sqlite', sqlite3.sqlite_version)
print('disk_objectstore from', lib.__file__)
scratch = '/dev/shm' if os.path.isdir('/dev/shm') and os.access('/dev/shm', os.W_OK) else os.environ.get('TMPDIR', '/tmp')
print('scratch base', scratch)
os.makedirs(os.path.join(HERE, 'evidence'), exist_ok=True)
os.makedirs(os.path.join(HERE, 'replays'), exist_ok=True)
print('setup ok')
