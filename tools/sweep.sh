#!/bin/bash
# usage: tools/sweep.sh <first-seed> <last-seed> [tier] [props...]   quick checks at other base seeds (false-alarm hunting);
# evidence / replays go to ./sweep-out/<seed>/ (VERIF_OUT_DIR), never to /verif/evidence. One line per check; the full
# output of every check that did not exit 0 is kept in ./sweep-out/<seed>/<prop>.log
first=$1; last=$2; tier=${3:-quick}; shift 3 2>/dev/null
cd "$(dirname "$0")/.."
props=${*:-$(cat tools/claimed.txt)}
for seed in $(seq $first $last); do
  out=$PWD/sweep-out/$seed; mkdir -p $out
  for p in $props; do
    start=$(date +%s)
    res=$(VERIF_SEED=$seed VERIF_OUT_DIR=$out timeout 3600 ./check $p $tier 2>&1); code=$?
    end=$(date +%s)
    echo "seed=$seed $p exit=$code wall=$((end-start))s $(echo "$res" | grep -E '^\[C[0-9]+\] runs' | sed 's/^\[C[0-9]*\] //')"
    if [ $code -ne 0 ]; then echo "$res" > $out/$p.log; echo "$res" | grep -E 'violation class|violation detail|HARNESS|VIOLATION' | head -5 | cut -c1-400; fi
  done
done
