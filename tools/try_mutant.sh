#!/bin/bash
# usage: tools/try_mutant.sh <patch.diff> <prop> [more props...]
# Applies the patch to a scratch copy of /repo (never to /repo itself), runs the quick checks against it with
# VERIF_REPO_DIR / VERIF_OUT_DIR pointing away from /verif, prints exit code + violation class, removes the copy.
patch=$(readlink -f "$1"); shift
tag=$(basename "$(dirname "$patch")")-$$
copy=/dev/shm/mutrun-$tag
out=/dev/shm/mutout-$tag
rm -rf "$copy" "$out"; mkdir -p "$copy" "$out"
rsync -a --exclude .git --exclude docs --exclude performance-benchmarks /repo/ "$copy"/
(cd "$copy" && git init -q . && git apply --whitespace=nowarn "$patch") || { echo "PATCH DOES NOT APPLY: $patch"; rm -rf "$copy" "$out"; exit 3; }
cd "$(dirname "$0")/.."
for prop in "$@"; do
  start=$(date +%s)
  res=$(VERIF_REPO_DIR="$copy" VERIF_OUT_DIR="$out" ./check "$prop" quick 2>&1); code=$?
  end=$(date +%s)
  klass=$(echo "$res" | grep -m1 '^violation class:' | sed 's/violation class: //')
  detail=$(echo "$res" | grep -m1 '^violation detail:' | cut -c1-220)
  echo "$prop exit=$code wall=$((end-start))s class=[$klass] $detail"
  if [ $code -eq 2 ]; then echo "$res" | grep HARNESS | head -3 | cut -c1-400; fi
done
rm -rf "$copy" "$out"
