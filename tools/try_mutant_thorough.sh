#!/bin/bash
# usage: try_thorough.sh <patch> <budget_s> <prop>...
patch=$(readlink -f "$1"); budget=$2; shift 2
tag=th-$$
copy=/tmp/mutrun-$tag; out=/tmp/mutout-$tag
rm -rf "$copy" "$out"; mkdir -p "$copy" "$out"
rsync -a --exclude .git --exclude docs --exclude performance-benchmarks /repo/ "$copy"/
(cd "$copy" && git init -q . && git apply --whitespace=nowarn "$patch") || { echo "PATCH DOES NOT APPLY"; exit 3; }
cd /verif
for prop in "$@"; do
  start=$(date +%s)
  res=$(VERIF_BUDGET_S=$budget VERIF_REPO_DIR="$copy" VERIF_OUT_DIR="$out" ./check "$prop" thorough 2>&1); code=$?
  end=$(date +%s)
  echo "$prop exit=$code wall=$((end-start))s $(echo "$res" | grep -m1 '^violation class:') $(echo "$res" | grep -m1 '^violation detail:' | cut -c1-200)"
  echo "$res" | grep -E "runs=" | tail -1
  if [ $code -eq 2 ]; then echo "$res" | grep HARNESS | head -3 | cut -c1-400; fi
done
rm -rf "$copy" "$out"
