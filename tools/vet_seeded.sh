#!/bin/bash
# usage: tools/vet_seeded.sh <Cxx> [extra props to run]    (reads /tmp/mut/<Cxx>/patch.diff and demo.py)
# 1. patch applies to a fresh copy of /repo  2. demo passes without, fails with  3. test suite (minus benchmarks) has the
# same failing set with the patch as without  4. our quick checks against the patched copy
id=$1; shift
src=${SEEDED_SRC:-/tmp/mut/$id}
work=/dev/shm/vet-$id
rm -rf $work; mkdir -p $work/clean $work/mut
rsync -a --exclude .git --exclude docs --exclude performance-benchmarks /repo/ $work/clean/
rsync -a --exclude .git --exclude docs --exclude performance-benchmarks /repo/ $work/mut/
(cd $work/mut && git init -q . && git apply --whitespace=nowarn $src/patch.diff) || { echo "PATCH DOES NOT APPLY"; exit 3; }
echo "patch: $(grep -c '^[+-][^+-]' $src/patch.diff) changed lines, files: $(grep '^+++ ' $src/patch.diff | tr '\n' ' ')"
for v in clean mut; do
  (cd $work/$v && cp $src/demo.py . && PYTHONPATH=$work/$v timeout 900 /venv/bin/python demo.py > demo.out 2>&1; echo "demo on $v: exit=$? $(tail -1 demo.out | cut -c1-160)")
done
TESTS="tests -k 'not benchmark'"
if [ ! -f /dev/shm/vet-clean.tests ]; then
  (cd $work/clean && PYTHONPATH=$work/clean timeout 3000 /venv/bin/python -m pytest -q -p no:cacheprovider --timeout=900 tests -k 'not benchmark' 2>&1 | grep -E '^(FAILED|ERROR)|passed|failed' | sed 's/ - .*//; s/ in [0-9.]*s.*//' | sort > /dev/shm/vet-clean.tests.tmp; mv /dev/shm/vet-clean.tests.tmp /dev/shm/vet-clean.tests)
fi
(cd $work/mut && PYTHONPATH=$work/mut timeout 3000 /venv/bin/python -m pytest -q -p no:cacheprovider --timeout=900 tests -k 'not benchmark' 2>&1 | grep -E '^(FAILED|ERROR)|passed|failed' | sed 's/ - .*//; s/ in [0-9.]*s.*//' | sort > $work/mut.tests)
echo "tests clean: $(grep -E 'passed|failed' /dev/shm/vet-clean.tests | tail -1)   tests with patch: $(grep -E 'passed|failed' $work/mut.tests | tail -1)"
if diff /dev/shm/vet-clean.tests $work/mut.tests > /dev/null; then echo "tests: identical outcome with and without the patch"; else echo "tests: OUTCOME DIFFERS"; diff /dev/shm/vet-clean.tests $work/mut.tests | head -6; fi
rm -rf $work
cd "$(dirname "$0")/.."
tools/try_mutant.sh $src/patch.diff $id "$@"
